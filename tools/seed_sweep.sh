#!/bin/sh
# seed_sweep.sh <seed> <ids...>: run quick checks with a given VERIF_SEED; print only alarms
S=$1; shift
for c in "$@"; do VERIF_SEED=$S ./check $c --tier quick 2>&1 | grep -E "VIOLATION|MACHINERY|^\[" | cut -c1-220 | sed "s/^/seed=$S /"; done
