#!/usr/bin/env python3
"""Print the prompt for a mutation sub-agent: property text + worktree path only."""
import json, sys
pid, wt = sys.argv[1], sys.argv[2]
hint = sys.argv[3] if len(sys.argv) > 3 else ""
for l in open('/verif/properties.jsonl'):
    d = json.loads(l)
    if d['id'] == pid:
        break
print(f"""You are helping to test how well a software-verification setup detects bugs in the Python package GETTSIM (a microsimulator of German taxes and transfers). Your job is to plant ONE realistic bug.

Work ONLY inside your own scratch git worktree at {wt} (a checkout of the repository; library source in {wt}/src/_gettsim, tests in {wt}/src/_gettsim_tests, docs in {wt}/docs). Do NOT read, list or modify /repo, /verif or any directory other than {wt} (and /tmp scratch files of your own). The Python environment is /venv/bin/python; it normally imports the package from another checkout, so ALWAYS run with PYTHONPATH={wt}/src, e.g.
  cd {wt} && PYTHONPATH={wt}/src /venv/bin/python demo.py
  cd {wt} && PYTHONPATH={wt}/src /venv/bin/python -m pytest -q -p no:cacheprovider -n 8 --timeout=900      (about 2-3 minutes)
On the UNCHANGED tree exactly 11 tests fail (6 in test_interface.py about object dtype, 5 in test_visualizations.py about an ImportError); these are environment failures, ignore them. There is no network.

The property under test:
  id: {d['id']}
  title: {d['title']}
  statement: {d['statement']}
  quantified over: {d['quantifier']['text']}
  why the existing tests cannot settle it: {d['why_tests_cant']}
  code anchors: {json.dumps(d['anchors'], ensure_ascii=False)}

Task:
1. Make ONE realistic change to the library source under {wt}/src/_gettsim (Python or YAML parameter files; NOT the tests) that BREAKS this property: a plausible slip a developer could make (refactoring mistake, off-by-one, wrong comparison, misplaced optimisation or cache, wrong default, a parameter entry typo, two sites that each look fine alone, ...). It must still import, and the existing test suite must give exactly the same result as before (the same 11 failures and nothing else failing) - run the full suite to confirm.
2. The breakage must need something specific to manifest - a particular row order, household structure, policy date, unusual-but-valid input value, multi-step sequence of API calls, or similar - not something that every ordinary call would expose. {hint}
3. Write a demonstration script {wt}/demo.py that uses the public API (gettsim.set_up_policy_environment, gettsim.compute_taxes_and_transfers, or documented module-level functions) and exits with status 0 on the unchanged tree and status 1 (printing what went wrong) on the changed tree. Check both WITHOUT using `git stash` (the stash is shared between all worktrees of this repository and other people use it concurrently): first `git -C {wt} diff > {wt}/patch.diff`, then `git -C {wt} apply -R {wt}/patch.diff` (unchanged tree: demo must exit 0), then `git -C {wt} apply {wt}/patch.diff` (changed tree: demo must exit 1). Keep demo.py untracked (do not `git add` it) so that it is not part of the diff.
4. Write the change as a unified diff: `git -C {wt} diff > {wt}/patch.diff` (source change only). Do NOT commit.
5. Reply with: the file/function changed, a one-paragraph description of the bug, why the existing tests do not notice it, and exactly what is needed for it to manifest (this goes into a meta.json later). Be concise.""")
