#!/usr/bin/env python3
"""keep_mutant.py <worktree> <seeded-id> <property> <caught_by> <needs...>: store patch, demo and meta under /verif/seeded/<id>/"""
import json, shutil, subprocess, sys, os
wt, sid, prop, caught = sys.argv[1:5]
needs = " ".join(sys.argv[5:])
d = f"/verif/seeded/{sid}"
os.makedirs(d, exist_ok=True)
shutil.copy(f"{wt}/patch.diff", f"{d}/patch.diff")
shutil.copy(f"{wt}/demo.py", f"{d}/demo.py")
log = ""
for cand in (f"/tmp/w/confirm_{os.path.basename(wt)}.log",):
    if os.path.exists(cand):
        log = open(cand).read()
meta = {
    "property": prop,
    "needs_to_manifest": needs,
    "confirmed": {
        "how": "tools/confirm_mutant.sh in the scratch worktree: demo.py exit 1 with the change, exit 0 without; full test suite with the change",
        "log": log[-1500:],
    },
    "detected_by": caught,
    "ran": f"tools/try_mutant.sh {d}/patch.diff {prop}  (git -C /repo apply; ./check {prop} --tier quick; git -C /repo checkout -- .)",
}
json.dump(meta, open(f"{d}/meta.json", "w"), indent=1, ensure_ascii=False)
print("kept", d)
