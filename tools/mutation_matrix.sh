#!/bin/sh
# mutation_matrix.sh: run the quick check of the property of every seeded change against it (scratch worktree) and
# write seeded/matrix.txt  (id property caught|MISSED first-violation-line)
cd /verif
OUT=seeded/matrix.txt
: > $OUT.tmp
for d in seeded/*/; do
  id=$(basename $d)
  prop=$(python3 -c "import json;print(json.load(open('$d/meta.json'))['property'])")
  res=$(tools/try_mutant.sh $d/patch.diff $prop 2>&1)
  line=$(echo "$res" | grep -A1 "^VIOLATION" | grep "^  C" | head -1 | cut -c1-160)
  if echo "$res" | grep -q "^VIOLATION"; then st=caught; else st=MISSED; fi
  echo "$id $prop $st $line" | tee -a $OUT.tmp
done
mv $OUT.tmp $OUT
