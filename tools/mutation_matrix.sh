#!/bin/sh
# mutation_matrix.sh [parallelism]: run the quick check of the property of every seeded change against it (scratch
# worktree, never /repo) and write seeded/matrix.txt  (id property caught|MISSED first-violation-line)
cd /verif
P=${1:-3}
OUT=seeded/matrix.txt
mkdir -p .work/matrix
ls -d seeded/*/ | xargs -n 1 -P $P sh -c '
  d=$0; id=$(basename $d)
  prop=$(python3 -c "import json;print(json.load(open(\"$d/meta.json\"))[\"property\"])")
  res=$(tools/try_mutant.sh $d/patch.diff $prop 2>&1)
  line=$(echo "$res" | grep -A1 "^VIOLATION" | grep "^  C" | head -1 | cut -c1-160)
  if echo "$res" | grep -q "^VIOLATION"; then st=caught; elif echo "$res" | grep -q "patch does not apply"; then st=NOAPPLY; else st=MISSED; fi
  echo "$id $prop $st $line" > .work/matrix/$id.txt
  echo "$id $prop $st"
'
cat .work/matrix/*.txt | sort > $OUT
grep -c caught $OUT; grep -E 'MISSED|NOAPPLY' $OUT
