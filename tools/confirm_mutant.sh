#!/bin/sh
# confirm_mutant.sh <worktree>: demo fails with the change and passes without; suite unchanged with the change
W=$1
cd $W || exit 2
test -s patch.diff || git diff > patch.diff
echo "== demo with change"; PYTHONPATH=$W/src /venv/bin/python demo.py >/tmp/w/demo_$$.log 2>&1; echo "exit=$?"; tail -3 /tmp/w/demo_$$.log
git apply -R patch.diff
echo "== demo without change"; PYTHONPATH=$W/src /venv/bin/python demo.py >/tmp/w/demo_$$.log 2>&1; echo "exit=$?"; tail -2 /tmp/w/demo_$$.log
git apply patch.diff
echo "== suite with change"; PYTHONPATH=$W/src /venv/bin/python -m pytest -q -p no:cacheprovider -n 8 --timeout=900 2>&1 | tail -1
