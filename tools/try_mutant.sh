#!/bin/sh
# try_mutant.sh <patch> <check ids...>: apply to /repo, run the quick checks, undo
P=$1; shift
cd /repo && git apply $P || { echo "patch does not apply"; exit 2; }
cd /verif
for c in "$@"; do echo "== $c"; ./check $c --tier ${TIER:-quick} 2>&1 | grep -E "VIOLATION|KNOWN|MACHINERY|^\[|^  C" | cut -c1-260; done
git -C /repo checkout -- . ; git -C /repo status --short | head -3
