#!/bin/sh
# try_mutant.sh <patch> <check ids...>: apply the patch in a scratch worktree of /repo (never in /repo
# itself) and run the quick checks against it through VERIF_REPO_SRC; remove the worktree afterwards.
P=$(readlink -f $1); shift
W=/tmp/mut/_try_$$
git -C /repo worktree add --detach $W HEAD >/dev/null 2>&1 || { echo "cannot create worktree"; exit 2; }
( cd $W && git apply $P ) || { echo "patch does not apply"; git -C /repo worktree remove --force $W; exit 2; }
cd /verif
for c in "$@"; do echo "== $c"; VERIF_REPO_SRC=$W/src ./check $c --tier ${TIER:-quick} 2>&1 | grep -E "VIOLATION|KNOWN|MACHINERY|^\[|^  C" | cut -c1-260; done
git -C /repo worktree remove --force $W
