"""C06 — a reform changes only what depends on it.

A  MC_Dag: reform locality on the specified pipeline over a small name universe.
C  real rule base: every parameter group is perturbed / sampled rules are replaced by a user
   function of the same signature; TLC (Trace_Runs relation `reform`) computes the users of
   the group / rule and their descendants from the function table of the run and accepts iff
   every column outside is identical.  Identical copies (deepcopy of params, cloned function,
   re-run of the untouched environment afterwards) must change nothing (relation `same`).
"""
from __future__ import annotations

import copy
import inspect
import json
import random
import types

import numpy as np

import gs
import runs
from c04 import DATES, make_population
from common import Check, pool_map

LEVEL = "model_checking"


def perturb(v, mode):
    """Scale every numeric leaf (recursively); structure and types are kept."""
    if isinstance(v, dict):
        # rounding specifications belong to the group too: their numeric leaves (base, offset) are perturbed as well; the rules
        # rounded with the group's specification count as its users (Trace_Runs.Users)
        return {k: perturb(x, mode) for k, x in v.items()}
    if isinstance(v, np.ndarray) and v.dtype.kind == "f":
        w = v.copy()
        fin = np.isfinite(w)
        w[fin] = w[fin] * 1.01 if mode == "scale" else w[fin] + 1.0
        return w
    if isinstance(v, bool) or isinstance(v, (np.bool_,)):
        return v
    if isinstance(v, float) and np.isfinite(v):
        return v * 1.01 if mode == "scale" else v + 1.0
    if isinstance(v, int):
        return v + 1  # many statutory amounts are written as integers
    if isinstance(v, np.floating) and np.isfinite(v):
        return type(v)(v * 1.01)
    return v


def replace_rule(orig):
    sig = inspect.signature(orig)
    ret = getattr(orig, "__annotations__", {}).get("return")

    def repl(*a, **k):
        out = orig(*a, **k)
        if isinstance(out, (bool, np.bool_)):
            return not out
        return out + 1

    repl.__signature__ = sig
    repl.__name__ = orig.__name__
    repl.__annotations__ = dict(getattr(orig, "__annotations__", {}))
    if hasattr(orig, "__info__"):
        repl.__info__ = dict(orig.__info__)
    return repl


def clone_function(f):
    g = types.FunctionType(f.__code__, f.__globals__, f.__name__, f.__defaults__, f.__closure__)
    g.__dict__.update(f.__dict__)
    g.__annotations__ = dict(f.__annotations__)
    g.__kwdefaults__ = f.__kwdefaults__
    return g


def job(j):
    date, seed, tid, groups, nrules, work = j
    rnd = random.Random(seed)
    df, P = make_population(date, rnd, k=2, rich=True)
    info = {"tid": tid, "date": date, "n": len(df), "persons": P, "runs": [], "errors": []}
    params, functions = gs.env(date)
    nodes, args = runs.nonderived_nodes(date, df)
    try:
        base, excluded = gs.compute_all(df, date, targets=nodes, rounding=True)
    except Exception as e:  # noqa: BLE001
        info["base_error"] = f"{type(e).__name__}: {str(e)[:200]}"
        return info
    cols = list(base.columns)
    dag = runs.dag_export(date, list(df))
    tr = runs.RunTrace(work, f"c06_{tid}")
    tr.base(tid, base, cols, dag)
    k = 0

    def attempt(rel, fields, **kw):
        nonlocal k
        k += 1
        try:
            res = gs.compute(df, date, targets=cols, **kw)
        except Exception as e:  # noqa: BLE001
            # a perturbed parameter may legitimately make a rule raise (e.g. a year used as key); not a locality issue
            info["errors"].append({"run": k, **fields, "error": f"{type(e).__name__}: {str(e)[:120]}"})
            return
        tr.run(tid, k, rel, res, list(res.columns), **fields)
        info["runs"].append({"run": k, "rel": rel, **fields})

    for g in groups:
        p2 = dict(params)
        p2[g] = perturb(copy.deepcopy(params[g]), rnd.choice(["scale", "shift"]))
        attempt("reform", {"kind": "params", "id": g}, params=p2)
    rules = [n for n in cols if n in functions and not getattr(functions[n], "__info__", {}).get("skip_vectorization", False)]
    for n in rnd.sample(rules, min(nrules, len(rules))):
        f2 = dict(functions)
        f2[n] = replace_rule(functions[n])
        attempt("reform", {"kind": "function", "id": n}, functions=f2)
    # the documented list form of a function reform: [environment functions, user function]
    n = rnd.choice(rules)
    attempt("reform", {"kind": "function", "id": n, "form": "list"}, functions=[functions, {n: replace_rule(functions[n])}])
    attempt("same", {"kind": "baseline-after-list-form-reform", "id": n})
    # identical copies change nothing
    attempt("same", {"kind": "deepcopy-params", "id": ""}, params=copy.deepcopy(params))
    n = rnd.choice(rules)
    f3 = dict(functions)
    f3[n] = clone_function(functions[n])
    attempt("same", {"kind": "clone-function", "id": n}, functions=f3)
    # a pure ADDITION: the version of a rule from another date installed under a new key (the documented renaming through the
    # dict key); it is decorated, so its own name_in_dag names an existing node -- no existing column may change
    try:
        other = None
        for d_ in gs.regime_dates("2009-01-01", "2025-12-31"):
            if d_ == date:
                continue
            f_other = gs.env(d_)[1]
            cand = [n for n in cols if n in functions and n in f_other and getattr(f_other[n], "__name__", n) != getattr(functions[n], "__name__", n)
                    and getattr(f_other[n], "__info__", None) and all(a in cols or a in df.columns or a.endswith("_params") for a in gs.arg_names(f_other[n]))]
            if cand:
                other = (d_, rnd.choice(cand), f_other)
                break
        if other:
            d_, n_, f_other = other
            f4 = dict(functions)
            f4["verif_added_variant"] = f_other[n_]
            attempt("same", {"kind": "added-variant-under-new-key", "id": f"{n_}@{d_}"}, functions=f4)
    except Exception as e:  # noqa: BLE001
        info["errors"].append({"run": k, "kind": "added-variant-under-new-key", "id": "", "error": f"{type(e).__name__}: {str(e)[:120]}"})
    # the untouched environment after all reforms: no leakage between handles
    attempt("same", {"kind": "baseline-again", "id": ""})
    out = tr.judge()
    # ---- a FRESH environment: its first use is the baseline; using it again, and using a deep copy taken after the first
    #      use (what a reform script does), must reproduce that baseline -- the empty reform changes nothing
    try:
        p0, f0 = gs.fresh_env(date)
        first = gs.compute(df, date, params=p0, functions=f0, targets=cols)
        tr2 = runs.RunTrace(work, f"c06f_{tid}")
        tid2 = tid + 1_000_000
        tr2.base(tid2, first, list(first.columns), dag)
        for kk, (kind, pp) in enumerate((("fresh-environment-second-use", p0), ("deepcopy-after-first-use", copy.deepcopy(p0))), start=900):
            res = gs.compute(df, date, params=pp, functions=f0, targets=cols)
            tr2.run(tid2, kk, "same", res, list(res.columns), kind=kind, id="")
            info["runs"].append({"run": kk, "rel": "same", "kind": kind, "id": ""})
        o2 = tr2.judge()
        out["bad"] = list(out["bad"]) + [{**b, "tid": tid} for b in o2["bad"]]
        out["tlc_states"] += o2["tlc_states"]
    except Exception as e:  # noqa: BLE001
        info["errors"].append({"run": 900, "kind": "fresh-environment", "id": "", "error": f"{type(e).__name__}: {str(e)[:120]}"})
    info["bad"] = out["bad"]
    info["changed"] = out["stats"]["changed"]
    info["tlc_states"] = out["tlc_states"]
    info["ncols"] = len(cols)
    return info


def perturb_inplace(v, depth=0):
    """Edit every float leaf of a nested parameter object IN PLACE (what a user reform script does)."""
    if isinstance(v, dict):
        for k in list(v.keys()):
            if k in ("rounding", "datum"):
                continue
            x = v[k]
            if isinstance(x, dict):
                perturb_inplace(x, depth + 1)
            elif isinstance(x, np.ndarray) and x.dtype.kind == "f":
                fin = np.isfinite(x)
                x[fin] = x[fin] * 1.01
            elif isinstance(x, float) and np.isfinite(x):
                v[k] = x * 1.01
            elif isinstance(x, int) and not isinstance(x, bool):
                v[k] = x + 1


def inplace_job(j):
    """Reform edited in place on one environment handle must not leak into other handles
    (the same handle's siblings, the environment set up before, an environment set up afterwards)."""
    date, seed, tid, groups, work = j
    rnd = random.Random(seed)
    df, P = make_population(date, rnd, k=2, rich=True)
    info = {"tid": tid, "date": date, "n": len(df), "persons": P, "runs": [], "errors": [], "inplace": True}
    p1, f1 = gs.fresh_env(date)
    nodes, args = runs.nonderived_nodes(date, df)
    try:
        base, excluded = gs.compute_all(df, date, targets=nodes, params=p1, functions=f1, rounding=True)
    except Exception as e:  # noqa: BLE001
        info["base_error"] = f"{type(e).__name__}: {str(e)[:200]}"
        return info
    cols = list(base.columns)
    tr = runs.RunTrace(work, f"c06i_{tid}")
    tr.base(tid, base, cols, runs.dag_export(date, list(df)))
    k = 0
    for g in groups:
        p2, f2 = gs.fresh_env(date)
        perturb_inplace(p2[g])
        for rel, fields, kw in (
            ("reform", {"kind": "params", "id": g}, {"params": p2, "functions": f2}),
            ("same", {"kind": "earlier-handle-after-inplace-reform", "id": g}, {"params": p1, "functions": f1}),
        ):
            k += 1
            try:
                res = gs.compute(df, date, targets=cols, **kw)
            except Exception as e:  # noqa: BLE001
                info["errors"].append({"run": k, **fields, "error": f"{type(e).__name__}: {str(e)[:120]}"})
                continue
            tr.run(tid, k, rel, res, list(res.columns), **fields)
            info["runs"].append({"run": k, "rel": rel, **fields})
    p3, f3 = gs.fresh_env(date)
    k += 1
    try:
        res = gs.compute(df, date, targets=cols, params=p3, functions=f3)
        tr.run(tid, k, "same", res, list(res.columns), kind="fresh-handle-after-inplace-reforms", id="")
        info["runs"].append({"run": k, "rel": "same", "kind": "fresh-handle-after-inplace-reforms", "id": ",".join(groups)})
    except Exception as e:  # noqa: BLE001
        info["errors"].append({"run": k, "kind": "fresh-handle", "id": "", "error": f"{type(e).__name__}: {str(e)[:120]}"})
    out = tr.judge()
    info["bad"] = out["bad"]
    info["changed"] = out["stats"]["changed"]
    info["tlc_states"] = out["tlc_states"]
    info["ncols"] = len(cols)
    return info


def _dispatch(j):
    return inplace_job(j[1]) if j[0] == "inplace" else job(j[1])


def run(tier):
    from _gettsim.config import INTERNAL_PARAMS_GROUPS

    chk = Check("C06", tier, LEVEL)
    rnd = random.Random(chk.seed * 65537 + 6)
    quick = tier == "quick"
    import mc_dag

    mc_dag.run_mc(chk, quick, which="C06")
    from c04 import dates_for

    dates = dates_for(rnd, quick, 1, lo="2009-01-01", nreg=1)     # incl. a regime date (thorough: all) so that dated rule versions take part
    dates.insert(1, "2002-01-01")                                 # a rounding specification with an offset is only in force 2001-2003
    groups = list(INTERNAL_PARAMS_GROUPS)
    jobs = []
    t = 0
    for date in dates:
        gg = groups[:]
        rnd.shuffle(gg)
        per = 5 if quick else 4
        reps = 1 if quick else 3
        for _ in range(reps):
            for i in range(0, len(gg), per):
                jobs.append((date, rnd.randrange(1 << 30), t, gg[i : i + per], 4 if quick else 12, str(chk.work)))
                t += 1
    jobs = [("plain", j) for j in jobs]
    for date in dates[: (1 if quick else 4)]:
        gg = groups[:]
        rnd.shuffle(gg)
        per = 5
        for i in range(0, len(gg) if not quick else 10, per):
            jobs.append(("inplace", (date, rnd.randrange(1 << 30), t, gg[i : i + per], str(chk.work))))
            t += 1
    outs = pool_map(_dispatch, jobs)
    total_changed = 0
    for info in outs:
        if "base_error" in info:
            chk.notes.setdefault("base_errors", []).append({k: info[k] for k in ("date", "base_error")})
            continue
        chk.count(len(info["runs"]) + 1)
        chk.cov["traces_validated_against_impl"] += 1
        chk.notes["trace_tlc_states"] = chk.notes.get("trace_tlc_states", 0) + info["tlc_states"]
        total_changed += info["changed"]
        byrun = {r["run"]: r for r in info["runs"]}
        for r in info["runs"]:
            chk.distinct(f"{info['date']}:{r['kind']}:{r['id']}")
        if info["errors"]:
            chk.notes.setdefault("perturbations_that_raised", []).extend([f"{info['date']}:{e['kind']}:{e['id']}:{e['error'][:60]}" for e in info["errors"]][:5])
        seen = set()
        for b in info["bad"]:
            r = byrun.get(b["run"], {})
            key = (r.get("kind"), r.get("id"), b["c"])
            if key in seen:
                continue
            seen.add(key)
            chk.violation(
                f"C06|{b['c']}|{r.get('kind')}={r.get('id')}|col={b['col']}",
                f"{r.get('kind')} reform of {r.get('id')!r} changed column {b['col']} which does not depend on it (date {info['date']})",
                {"date": info["date"], "persons": info["persons"], "reform": r, "col": b["col"], "clause": b["c"]},
            )
        chk.sample({"date": info["date"], "persons": info["n"], "reforms": [(r["kind"], r["id"]) for r in info["runs"][:8]], "columns_changed_in_allowed_region": info["changed"]})
    if total_changed == 0:
        raise RuntimeError("vacuous: no reform changed any column")
    chk.notes["columns_changed_by_reforms"] = total_changed
    chk.cov["rule"] = (
        "per population: base run (all non-time-derived nodes); every parameter group perturbed (all float leaves x1.01 or +1, arrays included, rounding specs untouched), seeded rules replaced "
        "by `orig+1` / `not orig` with the same signature; deepcopy of params, cloned function, baseline re-run; distinct_nontrivial = distinct (date, kind, id) reforms"
    )
    chk.assumptions += ["integer leaves are perturbed by +1, float leaves by x1.01 / +1; reforms that make a rule raise are recorded, not judged", "users of a group = nodes taking `<group>_params` or rounded with that group's rounding spec, taken from the run's own function table"]
    chk.notes["dates"] = dates
    return chk.finish()


def replay(path):
    case = json.load(open(path))["case"]
    chk = Check("C06", "quick", LEVEL)
    date = case["date"]
    df = gs.build_population(case["persons"], date)
    params, functions = gs.env(date)
    nodes, _ = runs.nonderived_nodes(date, df)
    base, _ = gs.compute_all(df, date, targets=nodes)
    cols = list(base.columns)
    tr = runs.RunTrace(str(chk.work), "replay")
    tr.base(0, base, cols, runs.dag_export(date, list(df)))
    r = case["reform"]
    kw = {}
    if r["kind"] == "params":
        p2 = dict(params)
        p2[r["id"]] = perturb(copy.deepcopy(params[r["id"]]), "scale")
        kw["params"] = p2
    elif r["kind"] == "function":
        f2 = dict(functions)
        f2[r["id"]] = replace_rule(functions[r["id"]])
        kw["functions"] = f2
    res = gs.compute(df, date, targets=cols, **kw)
    tr.run(0, 1, r["rel"], res, list(res.columns), kind=r["kind"], id=r["id"])
    out = tr.judge()
    print("bad:", out["bad"][:10])
    return 1 if out["bad"] else 0
