"""Run TLC and read back what it found.  TLC is the judge; this file only launches it."""
from __future__ import annotations

import json
import os
import re
import shutil
import subprocess
import time
from dataclasses import dataclass, field
from pathlib import Path

JAR = "/opt/veriftools/tla/tla2tools.jar"
DEPS = "/opt/veriftools/tla/CommunityModules-deps.jar"
SPEC_DIR = Path(__file__).resolve().parent.parent / "spec"


class TLCFailure(RuntimeError):
    """TLC itself failed (parse error, evaluation error, timeout) – machinery failure."""


@dataclass
class TLCResult:
    rc: int
    out: str
    generated: int = 0
    distinct: int = 0
    depth: int = 0
    wall_s: float = 0.0
    violated: list = field(default_factory=list)  # names of violated invariants/properties
    printed: list = field(default_factory=list)  # raw PrintT payload lines
    coverage: dict = field(default_factory=dict)  # action name -> (distinct, total)
    coverage_list: list = field(default_factory=list)
    error: str = ""

    @property
    def ok(self):
        return self.rc == 0 and not self.violated and not self.error


_STATS = re.compile(r"(\d+) states generated, (\d+) distinct states found")
_DEPTH = re.compile(r"The depth of the complete state graph search is (\d+)")
_INV = re.compile(r"Invariant (\S+) is violated")
_PROP = re.compile(r"(?:Action property|Temporal properties|property) (\S+)? ?(?:is|were) violated")
_COV = re.compile(r"^<(\w+) line .*?>: (\d+):(\d+)", re.M)


def run(
    module: str,
    cfg: str | None = None,
    *,
    workdir: Path,
    env: dict | None = None,
    workers: int = 1,
    timeout: int = 900,
    simulate: str | None = None,
    depth: int | None = None,
    seed: int | None = None,
    dump: Path | None = None,
    coverage: bool = False,
    xss: str = "512m",
    xmx: str = "8g",
    extra: list | None = None,
    allow_violation: bool = True,
) -> TLCResult:
    """Run TLC on spec/<module>.tla with spec/<cfg>.  Raises TLCFailure on machinery errors."""
    workdir = Path(workdir)
    workdir.mkdir(parents=True, exist_ok=True)
    meta = workdir / f"states_{module}_{os.getpid()}_{int(time.time()*1000)%100000}"
    cmd = [
        "java",
        f"-Xss{xss}",
        f"-Xmx{xmx}",
        "-XX:+UseParallelGC",
        "-cp",
        f"{JAR}:{DEPS}",
        "tlc2.TLC",
        "-workers",
        str(workers),
        "-metadir",
        str(meta),
        "-noGenerateSpecTE",
        "-nowarning",
    ]
    if cfg:
        cmd += ["-config", str(SPEC_DIR / cfg)]
    if simulate is not None:
        cmd += ["-simulate", simulate]
    if depth is not None:
        cmd += ["-depth", str(depth)]
    if seed is not None:
        cmd += ["-seed", str(seed)]
    if dump is not None:
        cmd += ["-dump", str(dump)]
    if coverage:
        cmd += ["-coverage", "1"]
    if extra:
        cmd += list(extra)
    cmd.append(str(SPEC_DIR / f"{module}.tla"))
    e = dict(os.environ)
    e.pop("JAVA_TOOL_OPTIONS", None)
    if env:
        e.update({k: str(v) for k, v in env.items()})
    t0 = time.time()
    try:
        p = subprocess.run(cmd, cwd=str(SPEC_DIR), env=e, capture_output=True, text=True, timeout=timeout)
    except subprocess.TimeoutExpired as ex:
        shutil.rmtree(meta, ignore_errors=True)
        raise TLCFailure(f"TLC timeout after {timeout}s on {module}") from ex
    finally:
        pass
    shutil.rmtree(meta, ignore_errors=True)
    out = p.stdout + "\n" + p.stderr
    r = TLCResult(rc=p.returncode, out=out, wall_s=time.time() - t0)
    ms = _STATS.findall(out)
    if ms:
        r.generated, r.distinct = int(ms[-1][0]), int(ms[-1][1])
    if not ms:
        m2 = re.search(r"The number of states generated: (\d+)", out)
        if m2:
            r.generated = r.distinct = int(m2.group(1))
    md = _DEPTH.search(out)
    if md:
        r.depth = int(md.group(1))
    r.violated = _INV.findall(out)
    if "Action property" in out and "violated" in out or "Temporal properties were violated" in out:
        r.violated.append("PROPERTY")
    for m in _COV.finditer(out):
        r.coverage[m.group(1)] = (int(m.group(2)), int(m.group(3)))
    # disjuncts of one action are reported under the same name with their position: keep all of them
    r.coverage_list = [(m.group(1), int(m.group(2)), int(m.group(3))) for m in _COV.finditer(out)]
    # machinery errors
    bad_markers = [
        "Parsing or semantic analysis failed",
        "TLC threw an unexpected exception",
        "Error: Evaluating",
        "was not evaluable",
        "Attempted to",
        "java.lang.",
        "Error: The",
        "Error: In evaluation",
        "Fatal errors while parsing",
        "Overflow when computing",
        "Could not",
    ]
    if not r.violated:
        for b in bad_markers:
            if b in out:
                r.error = b
                break
        if "Error:" in out and not r.error and "Postcondition" not in out and "Assumption" not in out:
            r.error = "Error"
    if "Assumption" in out and "is false" in out:
        r.violated.append("ASSUME")
    if "Postcondition" in out and "violated" in out.lower():
        r.violated.append("POSTCONDITION")
    if r.error:
        tail = "\n".join(out.strip().splitlines()[-40:])
        raise TLCFailure(f"TLC failed on {module} ({r.error}):\n{tail}")
    if r.rc != 0 and not r.violated:
        tail = "\n".join(out.strip().splitlines()[-40:])
        raise TLCFailure(f"TLC exit {r.rc} on {module}:\n{tail}")
    return r


def read_json(path):
    with open(path, encoding="utf-8") as fh:
        return json.load(fh)


def write_json(path, obj):
    Path(path).parent.mkdir(parents=True, exist_ok=True)
    with open(path, "w", encoding="utf-8") as fh:
        json.dump(obj, fh, ensure_ascii=False)
