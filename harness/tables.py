"""Result tables -> trace events (cells are indices into an exact value pool)."""
from __future__ import annotations

import re

import numpy as np

import enc


_TU = re.compile(r"(?P<b>.*_)(?P<u>[ymwd])(?P<g>_hh|_wthh|_fg|_bg|_eg|_ehe|_sn)?")


def is_derived_time_variant(name, args):
    """True when `name` is a derived time-unit conversion node (its single argument is the
    same flow in another unit)."""
    if len(args) != 1:
        return False
    m = _TU.fullmatch(name)
    k = _TU.fullmatch(args[0])
    return bool(m and k and m.group("b") == k.group("b") and (m.group("g") or "") == (k.group("g") or "") and m.group("u") != k.group("u"))


def table_event(pool: enc.Pool, res, pids, cols=None, colnames=None, **fields):
    cols = list(res.columns) if cols is None else cols
    arrs = [res[c].to_numpy() for c in cols]
    cells = []
    colidx = [pool.column(a) for a in arrs]
    n = len(pids)
    for r in range(n):
        cells.append([ci[r] for ci in colidx])
    ev = {"pids": [int(p) for p in pids], "cells": cells}
    if colnames is not None:
        ev["cols"] = list(colnames)
    ev.update(fields)
    return ev


def dtypes_of(res, cols):
    return [enc.kind_of_dtype(res[c].dtype) for c in cols]
