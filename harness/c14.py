"""C14 — simulation is pure, deterministic and independent of process history.

A  Gettsim.tla: API-level state machine (SetUp / Reform in place / Compute / Vectorize); TLC
   enumerates all histories up to the bound.
B  sampled histories are replayed, one per FRESH interpreter, on the real rule base; for every
   distinct call the reference is the same call made first in a fresh interpreter (two
   interpreters with different hash seeds).
C  TLC (Trace_History) validates: every call's result digest equals its reference, the
   references agree, nothing the caller holds is changed by a call.
"""
from __future__ import annotations

import json
import os
import random
import subprocess
import sys
from pathlib import Path

import tlaval
import tlc
from common import Check, pool_map

LEVEL = "model_checking"
HERE = os.path.dirname(os.path.abspath(__file__))
T2 = ["eink_st_y_sn", "kindergeld_m", "arbeitsl_geld_2_m_bg", "wohngeld_m_wthh", "ges_rente_m"]


def keystr(key):
    return f"{key['date']}|{','.join(sorted(key['reforms']))}|{key['pop']}|{key['targets']}|{int(bool(key['rounding']))}"


def run_history(job):
    steps, concrete, hashseed = job
    env = dict(os.environ)
    env["PYTHONHASHSEED"] = str(hashseed)
    p = subprocess.run([sys.executable, os.path.join(HERE, "hist_worker.py"), json.dumps({"steps": steps, "concrete": concrete})], capture_output=True, text=True, env=env, timeout=1500)
    for line in p.stdout.splitlines():
        if line.startswith("EVENTS "):
            return json.loads(line[7:])
    raise RuntimeError(f"history worker failed: {p.stderr[-1500:]}")


def concretise(hist):
    steps = []
    for h in hist:
        s = dict(h)
        if h["k"] == "compute":
            key = dict(h["key"])
            key["reforms"] = sorted(key["reforms"]) if not isinstance(key["reforms"], (list, tuple)) else list(key["reforms"])
            s["key"] = key
            s["keystr"] = keystr(key)
        steps.append(s)
    return steps


def reference_steps(key):
    """The same call made first in a fresh interpreter."""
    steps = [{"k": "setup", "d": key["date"], "e": 1}]
    for g in key["reforms"]:
        steps.append({"k": "reform", "e": 1, "g": g})
    steps.append({"k": "compute", "e": 1, "key": key, "keystr": keystr(key)})
    return steps


def _rules_to_rewrite(concrete, rnd):
    """The abstract rule f1 of Gettsim.tla stands for a handful of real rules that the later computes depend on: branching
    rules among the ancestors of the target sets, with and without a policy_info decoration."""
    import inspect

    import networkx as nx

    import gs
    import popgen

    date = concrete["dates"]["d1"]
    df = gs.build_population(popgen.compose([popgen.CANON["family_2"]], date, random.Random(1)), date)
    ok, args = gs.all_nodes_for(date, tuple(df.columns))
    g = nx.DiGraph()
    for n, a in args.items():
        for x in a:
            g.add_edge(x, n)
    want = set(concrete["targets"]["T1"]) | set(concrete["targets"]["T2"])
    anc = set()
    for t in want:
        if t in g:
            anc |= nx.ancestors(g, t) | {t}
    fns = gs.env(date)[1]
    deco, plain = [], []
    for n in sorted(anc):
        f = fns.get(n)
        if f is None:
            continue
        try:
            src = inspect.getsource(f)
        except (OSError, TypeError):
            continue
        if " if " not in src and "if " not in src:
            continue
        (deco if getattr(f, "__info__", None) else plain).append(n)
    out = rnd.sample(deco, min(4, len(deco))) + rnd.sample(plain, min(2, len(plain)))
    return sorted(out) or ["grundr_bew_zeiten_avg_entgeltp"]


def _purity_on_regime_date(date):
    import gs
    import hist_worker
    import popgen
    import runs

    try:
        params, functions = gs.fresh_env(date)
        df = gs.build_population(popgen.rich_core(date, random.Random(3)), date)
        held = {"data": df, "params": params, "functions": functions}
        before = hist_worker.digest_obj(held)
        nodes, _ = runs.nonderived_nodes(date, df, functions=functions)
        res, _ = gs.compute_all(df, date, targets=nodes, params=params, functions=functions, rounding=True)
        after = hist_worker.digest_obj(held)
        return {"key": f"purity@{date}", "digest": hist_worker.result_digest(res), "before": before, "after": after}
    except Exception:  # noqa: BLE001
        return None


def run(tier):
    chk = Check("C14", tier, LEVEL)
    rnd = random.Random(chk.seed * 65537 + 14)
    quick = tier == "quick"
    cfg = tlc.SPEC_DIR / f"_gen_gettsim_{os.getpid()}.cfg"
    cfg.write_text(
        'CONSTANTS\n  Dates = {"d1", "d2"}\n  Pops = {"p1", "p2"}\n  TargetSets = {"T1", "T2"}\n  Groups = {"g1"}\n  Rules = {"f1"}\n'
        f"  MaxLen = {4 if quick else 5}\n  MaxEnvs = 2\nSPECIFICATION Spec\nINVARIANT TypeOK\nCHECK_DEADLOCK FALSE\n"
    )
    dump = chk.work / "hist"
    try:
        res = tlc.run("Gettsim", cfg.name, workdir=chk.work, workers=16, dump=dump, timeout=2400, coverage=True)
    finally:
        cfg.unlink(missing_ok=True)
    chk.add_mc(res, "Gettsim")
    chk.require_actions(res, 4, "Gettsim (SetUp, Reform, Compute, Vectorize)")
    states = tlaval.read_dump(str(dump) + ".dump")
    Path(str(dump) + ".dump").unlink()
    full = [s["hist"] for s in states if len(s["hist"]) == (4 if quick else 5) and s["hist"][-1]["k"] == "compute"]

    def interesting(h):
        ks = [x["k"] for x in h]
        return ks.count("compute") >= 1 and (ks.count("setup") == 2 or "reform" in ks or "vectorize" in ks or ks.count("compute") >= 2)

    cand = [h for h in full if interesting(h)]
    # stratify: make sure reform / vectorize / two environments / repeated computes all occur
    def has(h, k):
        return any(x["k"] == k for x in h)

    def reform_then_setup(h):
        ks = [x["k"] for x in h]
        return "reform" in ks and "setup" in ks[ks.index("reform") + 1 :]

    strata = [
        [h for h in cand if reform_then_setup(h) and h[-1]["e"] == 2],
        [h for h in cand if has(h, "reform") and sum(x["k"] == "setup" for x in h) == 2],
        [h for h in cand if has(h, "vectorize")],
        [h for h in cand if sum(x["k"] == "compute" for x in h) >= 2],
        cand,
    ]
    n = 24 if quick else 240
    chosen = []
    # always replayed (first match in the canonical order of the enumerated histories): every (date, population, target set)
    # computed without reforms, a reform followed by a second set-up of the same date computed on the new handle, and a
    # rewrite followed by a compute -- per date
    def last_key(h):
        return h[-1]["key"]

    for d_ in ("d1", "d2"):
        for p_ in ("p1", "p2"):
            for t_ in ("T1", "T2"):
                m_ = [h for h in full if not has(h, "reform") and not has(h, "vectorize") and last_key(h)["date"] == d_ and last_key(h)["pop"] == p_ and last_key(h)["targets"] == t_ and last_key(h)["rounding"]]
                chosen += m_[:1]
        m_ = [h for h in full if [x["k"] for x in h] == ["setup", "reform", "setup", "compute"] and h[0]["d"] == d_ and h[2]["d"] == d_ and h[-1]["e"] == 2 and last_key(h)["pop"] == "p2" and last_key(h)["targets"] == "T2"]
        chosen += m_[:1]
        m_ = [h for h in full if [x["k"] for x in h][:2] == ["setup", "vectorize"] and h[0]["d"] == d_ and sum(x["k"] == "compute" for x in h) == 2 and last_key(h)["targets"] == "T2"]
        chosen += m_[:1]
    chk.notes["canonical_histories"] = len(chosen)
    for i in range(n):
        s = strata[i % len(strata)]
        if s:
            chosen.append(rnd.choice(s))
    from c04 import DATES

    # d2: a date with a rounding offset in force (2001-2003) in quick; thorough rotates through more dates
    d2 = "2002-01-01" if quick or chk.seed % 2 == 0 else rnd.choice([d for d in DATES if d != "2023-01-01"])
    concrete = {"dates": {"d1": "2023-01-01", "d2": d2}, "targets": {"T1": None, "T2": None}, "groups": {"g1": ["sozialv_beitr", "eink_st", "eink_st_abzuege", "kindergeld", "ges_rente", "arbeitsl_geld", "soli_st"]}, "rules": {"f1": "grundr_bew_zeiten_avg_entgeltp"}}
    import gs

    # target sets that are computable at both dates: T1 the tax targets, T2 contributions and transfers
    both = [set(gs.env(d)[1]) for d in concrete["dates"].values()]
    avail = both[0] & both[1]
    concrete["targets"]["T1"] = [t for t in ["eink_st_y_sn", "soli_st_y_sn", "kindergeld_m", "zu_verst_eink_y_sn"] if t in avail] + ["anz_kinder_hh", "anz_kinder_fg"]   # + built-in aggregates (T2 redefines one for its own call)
    concrete["targets"]["T2"] = [t for t in ["sozialv_beitr_arbeitnehmer_m", "ges_rentenv_beitr_arbeitnehmer_m", "arbeitsl_geld_m", "ges_rente_m", "kindergeld_m"] if t in avail]
    concrete["rules"]["f1"] = _rules_to_rewrite(concrete, rnd)
    chk.notes["rewritten_rules"] = concrete["rules"]["f1"]
    hists = [concretise(h) for h in chosen]
    keys = {}
    for h in hists:
        for s in h:
            if s["k"] == "compute":
                keys[s["keystr"]] = s["key"]
    jobs = [(h, concrete, 0) for h in hists]
    refjobs = [(reference_steps(k), concrete, hs) for k in keys.values() for hs in (1, 2)]
    outs = pool_map(run_history, jobs + refjobs)
    events = []
    for (steps, _, hs), evs in zip(refjobs, outs[len(jobs):]):
        e = evs[-1]
        events.append({"k": "ref", "key": e["key"], "digest": e["digest"] if not e["exc"] else "EXC:" + e["exc"]})
        events.append({"k": "call", "tid": -1, "pos": e["pos"], "key": e["key"], "digest": e["digest"], "exc": e["exc"], "before": e["before"], "after": e["after"]})
    # ---- "simulating never modifies the caller's ... parameter dictionary": on every regime date (each dated rule version in
    #      force once) a fresh environment is digested, all nodes are computed on the fixed rich population, and it is digested again
    for pe in pool_map(_purity_on_regime_date, [d_ for d_ in gs.regime_dates("2009-01-01", "2025-12-31")]):
        if pe:
            events.append({"k": "ref", "key": pe["key"], "digest": pe["digest"]})
            events.append({"k": "call", "tid": -2, "pos": 1, "key": pe["key"], "digest": pe["digest"], "exc": "", "before": pe["before"], "after": pe["after"]})
            keys[pe["key"]] = {"date": pe["key"], "reforms": [], "pop": "rich-core", "targets": "all", "rounding": True}
    owners = [None] * len(events)
    for tid, (evs, h) in enumerate(zip(outs[: len(jobs)], hists)):
        for e in evs:
            events.append({"k": "call", "tid": tid, **e})
            owners.append((tid, e["pos"]))
    chk.count(len(events))
    chk.notes["calls_that_raised"] = sorted({f"{e['key']}: {e['exc']}" for e in events if e["k"] == "call" and e.get("exc")})[:12]
    tf, of = chk.work / "hist_trace.json", chk.work / "hist_out.json"
    tlc.write_json(tf, events)
    r = tlc.run("Trace_History", "Trace_History.cfg", workdir=chk.work, env={"TRACE_FILE": str(tf), "OUT_FILE": str(of)}, timeout=1800)
    if r.violated:
        raise tlc.TLCFailure(f"Trace_History: {r.violated}\n{r.out[-1500:]}")
    out = tlc.read_json(of)
    chk.cov["traces_validated_against_impl"] += len(hists) + len(refjobs)
    chk.notes.update({"trace_tlc_states": r.distinct, "distinct_call_keys": out["keys"], "histories": len(hists), "d2": d2})
    seen = set()
    for b in out["bad"]:
        e = events[b["e"] - 1]
        own = owners[b["e"] - 1]
        hist = hists[own[0]] if own else reference_steps(keys[e["key"]])
        shape = ">".join(s["k"] + (":" + s["key"]["pop"] if s["k"] == "compute" else "") for s in hist[: (own[1] if own else len(hist))])
        pop = keys[e["key"]]["pop"]
        sig = f"C14|{b['c']}|pop={pop}" + (f"|after={'+'.join(sorted({s['k'] for s in hist[: own[1] - 1]}))}" if own and b["c"] != "mutated" else "")
        if sig in seen:
            continue
        seen.add(sig)
        chk.violation(sig, f"{b['c']}: call {e['key']} at position {e.get('pos')} of history {shape}", {"clause": b["c"], "history": hist, "concrete": concrete, "position": e.get("pos"), "key": e["key"]})
    for h in hists:
        chk.distinct(json.dumps(h, sort_keys=True))
    for h in hists[:3]:
        chk.sample([{k: v for k, v in s.items() if k != "key"} for s in h])
    chk.cov["rule"] = (
        "histories = reachable states of Gettsim.tla with MaxLen steps ending in a compute (2 dates, 2 populations [a DataFrame and a dict of Series needing type conversion], 2 target sets, rounding on/off, "
        "in-place reform of one parameter group, make_vectorizable of one rule, up to 2 environment handles), stratified seeded sample, one fresh interpreter each; references = each distinct call alone in two fresh "
        "interpreters with different PYTHONHASHSEED; distinct_nontrivial = distinct histories replayed"
    )
    chk.assumptions += ["digests are exact (bytes of every result column, dtype kind, index); held objects digested by content (functions by identity)"]
    return chk.finish()


def replay(path):
    case = json.load(open(path))["case"]
    evs = run_history((case["history"], case["concrete"], 0))
    ref = run_history((reference_steps({**[s for s in case["history"] if s["k"] == "compute"][-1]["key"]}), case["concrete"], 1))
    print("history:", [(e["pos"], e["digest"][:8], e["exc"], e["before"] == e["after"]) for e in evs])
    print("reference:", [(e["digest"][:8], e["exc"]) for e in ref])
    return 1 if (evs[-1]["digest"] != ref[-1]["digest"] or any(e["before"] != e["after"] for e in evs)) else 0
