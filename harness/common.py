"""Verdict policy, evidence files, known findings, replay files (DESIGN.md 3.5)."""
from __future__ import annotations

import hashlib
import json
import os
import shutil
import sys
import time
from pathlib import Path

VERIF = Path(__file__).resolve().parent.parent
WORK = VERIF / ".work"
# runs against a scratch copy of the repository (tools/try_mutant.sh) must not overwrite the evidence of /repo itself
_SCRATCH = os.environ.get("VERIF_REPO_SRC") not in (None, "", "/repo/src")
EVIDENCE = (WORK / "scratch_evidence") if _SCRATCH else (VERIF / "evidence")
REPLAYS = (WORK / "scratch_replays") if _SCRATCH else (VERIF / "replays")
KNOWN = VERIF / "known_findings.json"
NCPU = min(16, os.cpu_count() or 1)


def seed():
    try:
        return int(os.environ.get("VERIF_SEED", "0"))
    except ValueError:
        return 0


class MachineryFailure(RuntimeError):
    pass


def load_known():
    if not KNOWN.exists():
        return []
    return json.loads(KNOWN.read_text(encoding="utf-8"))["findings"]


class Check:
    """One run of one property's check."""

    def __init__(self, pid: str, tier: str, level: str):
        self.pid = pid
        self.tier = tier
        self.level = level
        self.t0 = time.time()
        self.seed = seed()
        self.cov = {
            "evaluations": 0,
            "distinct_nontrivial": 0,
            "rule": "",
            "samples": [],
            "states": 0,
            "transitions": 0,
            "traces_validated_against_impl": 0,
        }
        self.assumptions = []
        self.violations = []  # (signature, what, replay_payload)
        self.known_hits = {}
        self.notes = {}
        self.work = WORK / f"{pid}_{os.getpid()}"      # unique per run: concurrent runs of one check must not share scratch
        shutil.rmtree(self.work, ignore_errors=True)
        # scratch of crashed earlier runs of this check (older than three hours) is removed
        if WORK.exists():
            for d in WORK.glob(f"{pid}_*"):
                try:
                    if time.time() - d.stat().st_mtime > 3 * 3600:
                        shutil.rmtree(d, ignore_errors=True)
                except OSError:
                    pass
        self.work.mkdir(parents=True, exist_ok=True)
        self._known = [k for k in load_known() if k["property"] == pid and k.get("status", "open") == "open"]
        self._distinct = set()

    # ------------------------------------------------------------------ coverage helpers
    def add_mc(self, res, name=None):
        """Account a TLC model-checking run."""
        self.cov["states"] += res.distinct
        self.cov["transitions"] += res.generated
        runs = self.cov.setdefault("tlc_runs", [])
        runs.append(
            {
                "module": name,
                "generated": res.generated,
                "distinct": res.distinct,
                "depth": res.depth,
                "wall_s": round(res.wall_s, 2),
                "coverage": {k: list(v) for k, v in res.coverage.items()} or None,
            }
        )

    def require_actions(self, res, ndisjuncts, what, action="Next"):
        """Vacuity guard (TLC -coverage): the next-state relation has `ndisjuncts` top-level disjuncts (one per
        modelled action) and every one of them must have produced at least one state."""
        ent = [(d, t) for (n, d, t) in res.coverage_list if n == action]
        if len(ent) < ndisjuncts or any(t == 0 for d, t in ent):
            raise MachineryFailure(f"vacuous model check {what}: {len(ent)} disjuncts of {action} reported (expected {ndisjuncts}), counts {ent}")
        self.notes.setdefault("action_coverage", {})[what] = [t for d, t in ent]

    def count(self, n=1):
        self.cov["evaluations"] += n

    def distinct(self, key):
        self._distinct.add(key if isinstance(key, str) else json.dumps(key, sort_keys=True, ensure_ascii=False, default=str))

    def sample(self, s, limit=6):
        if len(self.cov["samples"]) < limit:
            self.cov["samples"].append(s)

    # ------------------------------------------------------------------ verdicts
    def violation(self, signature: str, what: str, payload: dict):
        """Report a violation; matched against the known findings by signature prefix."""
        for k in self._known:
            if _match(k["signature"], signature):
                hit = self.known_hits.setdefault(k["signature"], {"what": k["what"], "n": 0, "first": signature})
                hit["n"] += 1
                return False
        self.violations.append((signature, what, payload))
        return True

    def finish(self):
        self.cov["distinct_nontrivial"] = len(self._distinct)
        rc = 0
        lines = []
        for sig, hit in self.known_hits.items():
            lines.append(f"KNOWN-FINDING: property={self.pid} {sig} :: {hit['what']} (seen {hit['n']}x)")
        seen = set()
        for sig, what, payload in self.violations:
            if sig in seen:
                continue
            seen.add(sig)
            h = hashlib.sha1(sig.encode()).hexdigest()[:12]
            d = REPLAYS / self.pid
            d.mkdir(parents=True, exist_ok=True)
            path = d / f"{h}.json"
            path.write_text(
                json.dumps({"property": self.pid, "signature": sig, "what": what, "case": payload}, ensure_ascii=False, indent=1, default=str),
                encoding="utf-8",
            )
            lines.append(f"VIOLATION property={self.pid} replay={path}")
            lines.append(f"  {sig} :: {what}")
            rc = 1
        ev = {
            "property_id": self.pid,
            "tier": self.tier,
            "seed": self.seed,
            "level": self.level,
            "coverage": self.cov,
            "assumptions": self.assumptions,
            "wall_s": round(time.time() - self.t0, 2),
            "violations": len(seen),
            "known_findings_seen": {k: v["n"] for k, v in self.known_hits.items()},
            "notes": self.notes,
        }
        for k in ("states", "transitions"):
            if not self.cov.get(k):
                self.cov.pop(k, None)
        if not self.cov["samples"]:
            self.cov["samples"] = ["(no sample recorded)"]
        EVIDENCE.mkdir(parents=True, exist_ok=True)
        (EVIDENCE / f"{self.pid}.json").write_text(json.dumps(ev, ensure_ascii=False, indent=1, default=str), encoding="utf-8")
        shutil.rmtree(self.work, ignore_errors=True)
        for ln in lines:
            print(ln)
        print(f"[{self.pid}] tier={self.tier} evaluations={self.cov['evaluations']} distinct={self.cov['distinct_nontrivial']} "
              f"states={self.cov.get('states', 0)} traces={self.cov['traces_validated_against_impl']} violations={len(seen)} "
              f"known={len(self.known_hits)} wall={ev['wall_s']}s")
        return rc


def _match(pattern: str, sig: str) -> bool:
    """A known-finding signature matches when all its `|`-separated fields occur in the violation's."""
    want = [p for p in pattern.split("|") if p]
    have = set(sig.split("|"))
    return all(w in have for w in want)


def pool_map(fn, items, procs=None, chunksize=1):
    """multiprocessing map with spawn-free fork pool; deterministic order."""
    import multiprocessing as mp

    procs = procs or NCPU
    if procs <= 1 or len(items) <= 1:
        return [fn(x) for x in items]
    ctx = mp.get_context("fork")
    with ctx.Pool(min(procs, len(items))) as p:
        return p.map(fn, items, chunksize)
