"""C13 — time-unit variants of a column differ exactly by the fixed factors.

A  MC_Dag: UnitsByFactor / SpecPrecedence on the specified pipeline (which derived name is wired
   to which source and converter; derived nodes never shadow rules or data; no cycle).
B  the twelve converter functions on a value grid (Trace_Arith conv events).
C  real rule base: every derived time node that Derive.tla derives for the call against its
   source (individual and group level, rounding on); flow inputs supplied in another time unit
   must reproduce all default targets (Trace_Runs relation close).
"""
from __future__ import annotations

import json
import random

import numpy as np

import arith
import gs
import mc_dag
import runs
from c04 import DATES, make_population
from common import Check, pool_map

LEVEL = "model_checking"
F = {"y": 1.0, "m": 12.0, "w": 365.25 / 7, "d": 365.25}


def converter_events():
    from _gettsim.time_conversion import _time_conversion_functions as conv

    tr = arith.ArithTrace()
    xs = np.array([0.0, 1.0, -3.5, 12.0, 1461.0, 0.01, 1e7, 123456.78, 450.0, 5550.0, 1e-3, 84600.0])
    for name, fn in sorted(conv.items()):
        u, v = name.split("_to_")
        out = np.array([fn(float(x)) for x in xs])
        tr.add({"k": "conv", "a": name, "ua": u, "xa": tr.cells(xs), "b": name, "ub": v, "xb": tr.cells(out)}, {"via": "converter", "node": name, "date": "-"})
    return tr


def api_job(j):
    date, seed, tid, work = j
    rnd = random.Random(seed)
    df, P = make_population(date, rnd, k=3)
    info = {"tid": tid, "date": date, "persons": P, "n": len(df), "bad_runs": [], "errors": []}
    data_cols = list(df)
    import derive

    grp_targets = ["bruttolohn_y_hh", "kindergeld_y_fg", "eink_st_m_sn", "arbeitsl_geld_2_y_bg", "wohngeld_d_wthh", "elterngeld_w", "ges_rente_y", "sozialv_beitr_arbeitnehmer_w"]
    targets0 = gs.default_targets() + grp_targets
    case = derive.export_case(f"c13:{tid}", date, data_cols, targets0)
    out, r = derive.judge([case], work, f"c13_{tid}")
    d = out[0]
    info["derive"] = {k: d[k] for k in ("missing", "extra", "args", "ov", "round")}
    ok_nodes, args = gs.all_nodes(date, data_cols, extra_targets=grp_targets)
    oks = set(ok_nodes) | set(data_cols)
    times = [t for t in d["times"] if t[0] in oks and t[1] in oks]
    targets = sorted({x for t in times for x in (t[0], t[1]) if x not in data_cols})
    try:
        res, excluded = gs.compute_all(df, date, targets=targets, rounding=True)
    except Exception as e:  # noqa: BLE001
        info["base_error"] = f"{type(e).__name__}: {str(e)[:200]}"
        return info, None
    tr = arith.ArithTrace()

    def colv(name):
        return res[name].to_numpy() if name in res else df[name].to_numpy()

    for n, src, fr, to in times:
        if n not in res or (src not in res and src not in df):
            continue
        a, b = colv(n), colv(src)
        if a.dtype.kind not in "fiub" or b.dtype.kind not in "fiub":
            continue
        tr.add({"k": "conv", "a": n, "ua": to, "xa": tr.cells(a.astype(float)), "b": src, "ub": fr, "xb": tr.cells(b.astype(float))}, {"via": "api", "node": n, "src": src, "date": date, "tid": tid})
    info["n_conv"] = len(tr.events)
    # ---- inputs in another unit
    dt = [t for t in gs.default_targets()]
    try:
        base = gs.compute(df, date, targets=dt)
    except Exception as e:  # noqa: BLE001
        info["base_error"] = f"{type(e).__name__}: {str(e)[:200]}"
        return info, tr
    rt = runs.RunTrace(work, f"c13_{tid}")
    rt.base(tid, base, list(base.columns), [])
    flows = [c for c in data_cols if c.endswith("_m") and df[c].dtype.kind == "f"]
    k = 0
    alt_runs = {}
    # ... and the group-level flow inputs (the unit letter sits before the group suffix)
    gflows = [c for c in data_cols if any(c.endswith(f"_m_{g}") for g in ("hh", "sn", "bg", "fg", "eg", "ehe", "wthh")) and df[c].dtype.kind == "f"]
    for c in rnd.sample(flows, min(3, len(flows))) + ["bruttolohn_m", "betreuungskost_m"] + gflows:
        for u in rnd.sample(["y", "w", "d"], 2):
            k += 1
            d2 = df.drop(columns=[c]).copy()
            new = (c[:-1] + u) if c.endswith("_m") else (c[: c.rindex("_m_")] + f"_{u}_" + c[c.rindex("_m_") + 3 :])
            d2[new] = df[c].to_numpy() * 12.0 / F[u]
            try:
                r2 = gs.compute(d2, date, targets=dt)
            except Exception as e:  # noqa: BLE001
                info["errors"].append({"input": c, "as": new, "error": f"{type(e).__name__}: {str(e)[:160]}"})
                continue
            rt.run(tid, k, "close", r2, list(r2.columns))
            alt_runs[k] = r2
            info.setdefault("alt", {})[k] = (c, new)
    # ---- an input in another unit stored as INTEGERS (whole euros per year, not multiples of 12): the derived units and
    #      everything downstream must be what the same numbers stored as floats give
    vy = np.round(df["bruttolohn_m"].to_numpy() * 12).astype(np.int64) + (np.arange(len(df)) % 11) + 1
    ext = ["bruttolohn_m", "bruttolohn_w", "bruttolohn_d", "bruttolohn_m_hh"]
    try:
        d_f = df.drop(columns=["bruttolohn_m"]).copy()
        d_f["bruttolohn_y"] = vy.astype(float)
        d_i = df.drop(columns=["bruttolohn_m"]).copy()
        d_i["bruttolohn_y"] = vy
        b_f = gs.compute(d_f, date, targets=dt + ext)
        r_i = gs.compute(d_i, date, targets=dt + ext)
        tid2 = tid + 1_000_000
        rt.base(tid2, b_f, list(b_f.columns), [])
        k += 1
        rt.run(tid2, k, "close", r_i, list(r_i.columns))
        info.setdefault("alt", {})[k] = ("bruttolohn_m", "bruttolohn_y:int64")
        for n_, u_ in (("bruttolohn_m", "m"), ("bruttolohn_w", "w"), ("bruttolohn_d", "d")):
            tr.add({"k": "conv", "a": n_, "ua": u_, "xa": tr.cells(r_i[n_].to_numpy().astype(float)), "b": "bruttolohn_y", "ub": "y", "xb": tr.cells(vy.astype(float))},
                   {"via": "api-int-input", "node": n_, "src": "bruttolohn_y", "date": date, "tid": tid})
    except Exception as e:  # noqa: BLE001
        info["errors"].append({"input": "bruttolohn_m", "as": "bruttolohn_y:int64", "error": f"{type(e).__name__}: {str(e)[:160]}"})
    o = rt.judge()
    # ---- a difference is only a violation if it is not explained by floating-point rounding of the input itself: the
    #      statement allows the round trip to be the identity "up to floating-point rounding", and rules with steps (floor to
    #      whole euros, thresholds) turn a last-bit difference of a wage that sits exactly on a step into a visible one.
    #      Accepted iff some value within 4 ulp of the original monthly input reproduces the alternative-unit run.
    badk = sorted({b["run"] for b in o["bad"]})
    if badk:
        rt2 = runs.RunTrace(work, f"c13c_{tid}")
        cand_of = {}
        kk = 0
        for bk in badk:
            c, new = info["alt"][bk]
            if ":" in new or bk not in alt_runs:
                continue
            x = df[c].to_numpy()
            for nudge in (-1, 1, -2, 2, -3, 3, -4, 4):
                y = x.copy()
                for _ in range(abs(nudge)):
                    y = np.nextafter(y, np.inf if nudge > 0 else -np.inf)
                y = np.where(x == 0.0, 0.0, y)
                d3 = df.copy()
                d3[c] = y
                try:
                    b3 = gs.compute(d3, date, targets=dt)
                except Exception:  # noqa: BLE001
                    continue
                kk += 1
                t3 = tid + 2_000_000 + kk
                rt2.base(t3, b3, list(b3.columns), [])
                rt2.run(t3, kk, "close", alt_runs[bk], list(alt_runs[bk].columns))
                cand_of[t3] = bk
        if cand_of:
            o2 = rt2.judge()
            failed = {}
            for b in o2["bad"]:
                failed.setdefault(b["tid"], set()).add(b["col"])
            explained = {cand_of[t] for t in cand_of if t not in failed}
            if explained:
                info["rounding_explained"] = [info["alt"][bk] for bk in sorted(explained)]
                o["bad"] = [b for b in o["bad"] if b["run"] not in explained]
            o["tlc_states"] += o2["tlc_states"]
    info["bad_runs"] = o["bad"]
    info["tlc_states"] = o["tlc_states"]
    return info, tr


def run(tier):
    chk = Check("C13", tier, LEVEL)
    rnd = random.Random(chk.seed * 65537 + 13)
    quick = tier == "quick"
    mc_dag.run_mc(chk, quick, which="C13")
    import toy

    for m_ in toy.run_toy(chk, quick, rnd, "C13", kinds=['scale'])[:5]:
        chk.violation(f"C13|toy-universe|target={m_['target']}|{m_['what'][:40]}", f"toy universe (MC_Dag configuration {m_['id']}): {m_['what']} for target {m_['target']}", m_)
    traces = [converter_events()]
    chk.count(len(traces[0].events))
    dates = ["2023-01-01"] + rnd.sample([d for d in DATES if d != "2023-01-01"], 1 if quick else len(DATES) - 1)
    njobs = 8 if quick else 60
    jobs = [(dates[t % len(dates)], rnd.randrange(1 << 30), t, str(chk.work)) for t in range(njobs)]
    jobs.sort()
    outs = pool_map(api_job, jobs)
    for info, tr in outs:
        if "base_error" in info:
            chk.violation(f"C13|api-raised|{info['base_error'][:60]}", "computing the time-unit nodes raised", {k: info[k] for k in ("date", "persons", "base_error")})
        if tr is not None:
            traces.append(tr)
            chk.count(info.get("n_conv", 0))
        for x in info["derive"]["args"]:
            if x[1] == "time":
                chk.violation(f"C13|wiring|node={x[0]}", f"derived time node {x[0]} is wired to another source than specified", {"date": info["date"], "derive": info["derive"]})
        for e in info["errors"]:
            chk.violation(f"C13|alt-unit-raised|input={e['input']}", f"supplying {e['input']} as {e['as']} raised", {"date": info["date"], "persons": info["persons"], **e})
        seen = set()
        for b in info["bad_runs"]:
            c, new = info["alt"][b["run"]]
            if (c, b["col"]) in seen:
                continue
            seen.add((c, b["col"]))
            chk.violation(f"C13|alt-unit|input={c}|col={b['col']}", f"supplying {c} as {new} changes {b['col']} (date {info['date']})", {"date": info["date"], "persons": info["persons"], "input": c, "as": new, "col": b["col"]})
        if info.get("rounding_explained"):
            chk.notes.setdefault("differences_explained_by_input_rounding", []).append({"date": info["date"], "inputs": info["rounding_explained"]})
        chk.cov["traces_validated_against_impl"] += 1 + len(info.get("alt", {}))
        chk.count(len(info.get("alt", {})))
        chk.sample({"date": info["date"], "persons": info["n"], "time_nodes_checked": info.get("n_conv"), "inputs_in_other_units": list(info.get("alt", {}).values())[:4]})
    bad, tstates = arith.judge(traces, chk.work, "c13")
    chk.cov["traces_validated_against_impl"] += sum(len(t.events) for t in traces)
    chk.notes["trace_tlc_states"] = tstates
    seen = set()
    for meta, clause in bad:
        sig = f"C13|{clause}|node={meta['node']}"
        if sig in seen:
            continue
        seen.add(sig)
        chk.violation(sig, f"{meta['node']} does not differ from {meta.get('src', 'its argument')} by the documented factor ({meta['date']})", meta)
    for t in traces:
        for m in t.meta:
            chk.distinct(("n", m["node"]))
    chk.cov["rule"] = (
        "the 12 converters on a value grid; per population every derived time node of the call's function table (as derived by Derive.tla, individual and group level incl. requested group/time combinations) "
        "against its source with rounding on; 5 flow inputs supplied in 2 other units each with all default targets compared; distinct_nontrivial = distinct time nodes / converters checked"
    )
    chk.assumptions += ["factor identity to 1e-12 relative on exact decimals; alternative-unit inputs to 1e-9; a difference after supplying an input in another unit is not reported when a value within 4 ulp of the original input reproduces it (round trip is the identity only up to floating-point rounding, rules contain steps)", "well-formedness W1/W2 of the rule base (one explicit definition per flow)"]
    return chk.finish()


def replay(path):
    d = json.load(open(path))
    print(json.dumps(d["case"], ensure_ascii=False)[:800])
    return run("quick")
