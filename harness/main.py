"""Entry point: ./check <property> --tier quick|thorough [--replay path]."""
from __future__ import annotations

import argparse
import importlib
import os
import sys
import traceback

sys.path.insert(0, os.path.dirname(os.path.abspath(__file__)))


def main():
    ap = argparse.ArgumentParser()
    ap.add_argument("pid")
    ap.add_argument("--tier", default=os.environ.get("VERIF_TIER", "quick"), choices=["quick", "thorough"])
    ap.add_argument("--replay", default=None)
    a = ap.parse_args()
    pid = a.pid.upper()
    try:
        mod = importlib.import_module(pid.lower())
    except ModuleNotFoundError:
        print(f"no check for {pid}")
        return 2
    try:
        if a.replay:
            return mod.replay(a.replay)
        return mod.run(a.tier)
    except Exception:  # noqa: BLE001
        traceback.print_exc()
        print(f"MACHINERY-FAILURE property={pid}")
        return 2


if __name__ == "__main__":
    sys.exit(main())
