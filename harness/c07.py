"""C07 — the environment for a date is exactly the law in force that day.

The raw dated entries of the YAML files and the dated rule registry are exported without
interpretation (RAW_FILE); the implementation's environments on chosen days are recorded
(TRACE_FILE); TLC (Trace_Timeline over Timeline.tla) decides equality with the specified
resolution.  MC_Timeline model-checks the resolution rules on abstract timelines and the
abstract timelines are replayed through the real loader on synthetic YAML directories.
"""
from __future__ import annotations

import datetime
import json
import random

import numpy as np

import enc
import gs
import tlc
from common import Check, pool_map

LEVEL = "model_checking"
NOT_TRANS = ["note", "reference", "deviation_from", "access_different_date"]
DERIVED_AT_SETUP = {
    ("kinderzuschl", "maximum"),
    ("eink_st_abzuege", "einführungsfaktor_vorsorgeaufw_alter_ab_2005"),
    ("eink_st_abzuege", "vorsorgepauschale_rentenv_anteil"),
}


def key(k):
    return enc.tag(k)


def flat(v, pre=()):
    if isinstance(v, dict):
        out = []
        if not v:
            out.append([list(pre), "{}"])
        for k, x in v.items():
            out += flat(x, pre + (key(k),))
        return out
    return [[list(pre), enc.tag(v)]]


def _as_date(k):
    """Entry keys of the law's files are dates; a key that only LOOKS like a date (a quoted string, a datetime) still dates
    an entry of the law, so it is read as one (the implementation silently skips such keys)."""
    if isinstance(k, datetime.datetime):
        return k.date()
    if isinstance(k, datetime.date):
        return k
    if isinstance(k, str):
        try:
            return datetime.date.fromisoformat(k.strip())
        except ValueError:
            return None
    return None


def export_raw(yaml_dir=None, groups=None):
    import yaml
    from _gettsim.config import INTERNAL_PARAMS_GROUPS, RESOURCE_DIR

    yaml_dir = yaml_dir or RESOURCE_DIR / "parameters"
    groups = groups or INTERNAL_PARAMS_GROUPS
    out = []
    for g in groups:
        raw = yaml.load((yaml_dir / f"{g}.yaml").read_text(encoding="utf-8"), Loader=yaml.CLoader)
        params = []
        for p, body in raw.items():
            if p == "rounding":
                continue
            entries = []
            for k0, e in body.items():
                k = _as_date(k0)
                if k is not None and isinstance(e, dict):
                    ent = {"day": k.toordinal(), "dev": e.get("deviation_from", "") if isinstance(e, dict) else "", "scalar": "", "vals": []}
                    if "scalar" in e:
                        ent["scalar"] = enc.tag(e["scalar"])
                    else:
                        ent["vals"] = [{"key": key(kk), "flat": flat(vv)} for kk, vv in e.items() if kk not in NOT_TRANS]
                    entries.append(ent)
            entries.sort(key=lambda x: x["day"])
            params.append(
                {
                    "name": p,
                    "entries": entries,
                    "add": body.get("access_different_date", ""),
                    "trans": [{"key": key(k), "flat": flat(body[k])} for k in ["type", "progressionsfaktor"] if k in body],
                }
            )
        rnd = []
        for fn, body in (raw.get("rounding") or {}).items():
            rnd.append(
                {
                    "name": fn,
                    "entries": sorted(
                        [
                            {"day": _as_date(k).toordinal(), "flat": flat({kk: vv for kk, vv in e.items() if kk not in ("note", "reference")})}
                            for k, e in body.items()
                            if _as_date(k) is not None and isinstance(e, dict)
                        ],
                        key=lambda x: x["day"],
                    ),
                }
            )
        out.append({"name": g, "params": params, "rounding": rnd})
    return out


def export_impls():
    from _gettsim.functions_loader import load_internal_functions

    impls = []
    for pyname, f in sorted(load_internal_functions().items()):
        info = getattr(f, "__info__", None)
        dated = bool(info and "name_in_dag" in info)
        impls.append(
            {
                "key": info["name_in_dag"] if dated else pyname,
                "fn": getattr(f, "__name__", pyname),
                "start": info["start_date"].toordinal() if dated else 0,
                "end": info["end_date"].toordinal() if dated else 0,
                "dated": dated,
            }
        )
    return impls


PIECEWISE_KEYS = {"thresholds", "rates", "intercepts_at_lower_thresholds"}


def observe_day(job):
    iso, full = job
    from _gettsim.config import INTERNAL_PARAMS_GROUPS
    from _gettsim.policy_environment import _load_parameter_group_from_yaml, load_functions_for_date

    d = datetime.date.fromisoformat(iso)
    events = []
    env = None
    err = None
    if full:
        try:
            env = gs.fresh_env(iso)
        except Exception as e:  # noqa: BLE001
            err = f"{type(e).__name__}: {str(e)[:200]}"
    for g in INTERNAL_PARAMS_GROUPS:
        raw = _load_parameter_group_from_yaml(d, g)
        datum = raw.pop("datum")
        rnd = raw.pop("rounding", {})
        src = "raw"
        vals = raw
        if env is not None:
            src = "api"
            pub = dict(env[0][g])
            datum = pub.pop("datum")
            rnd = pub.pop("rounding", {})
            vals = {}
            for k, v in pub.items():
                if (g, k) in DERIVED_AT_SETUP:
                    if k in raw:
                        vals[k] = raw[k]
                    continue
                if isinstance(v, dict) and PIECEWISE_KEYS <= set(v.keys()):
                    vals[k] = raw.get(k, v)  # parsed schedule: compared in raw form here, parsed form in C18
                else:
                    vals[k] = v
            for k in raw:
                if (g, k) in DERIVED_AT_SETUP and k not in pub:
                    vals[k] = raw[k]
        events.append(
            {
                "k": "env",
                "day": d.toordinal(),
                "iso": iso,
                "src": src,
                "group": g,
                "datum": int(np.datetime64(datum, "D").astype(int)) + 719163,
                "params": [{"name": k, "flat": flat(v)} for k, v in vals.items()],
                "rounding": [{"name": k, "flat": flat(v)} for k, v in rnd.items()],
            }
        )
    fns = env[1] if env is not None else load_functions_for_date(d)
    events.append({"k": "funcs", "day": d.toordinal(), "iso": iso, "active": [[k, getattr(f, "__name__", k)] for k, f in fns.items()]})
    return events, err


def choose_days(raw, impls, rnd, quick):
    entry = set()
    for g in raw:
        for p in g["params"]:
            entry |= {e["day"] for e in p["entries"]}
        for r in g["rounding"]:
            entry |= {e["day"] for e in r["entries"]}
    impl_days = {i["start"] for i in impls if i["dated"] and i["start"] > 700000} | {i["end"] + 1 for i in impls if i["dated"] and i["end"] < 800000}
    lo = datetime.date(1980, 1, 1).toordinal()
    hi = max(entry) + 366
    b = {d for d in entry | impl_days if lo <= d <= hi}
    cut = datetime.date(2015, 1, 1).toordinal()
    days = set()
    recent = sorted(d for d in b if d >= cut)
    old = sorted(d for d in b if d < cut)
    if quick:
        old = rnd.sample(old, min(24, len(old)))
    for d in recent + old:
        days |= {d, d - 1}
    look = [d + k for d in (recent if quick else sorted(b)) for k in (365, 366)]
    days |= set(look if not quick else rnd.sample(look, min(20, len(look))))
    for y in range(1980 if not quick else 2008, 2033, 4):
        days.add(datetime.date(y, 2, 29).toordinal())
        days.add(datetime.date(y, 3, 1).toordinal())
    for _ in range(24 if quick else 400):
        days.add(rnd.randrange(lo, hi))
    days = sorted(d for d in days if lo <= d <= hi)
    return [datetime.date.fromordinal(d).isoformat() for d in days], len(b)


def judge(chk, raw_file, events, tag):
    nchunk = max(1, min(16, len(events) // 300))
    size = (len(events) + nchunk - 1) // nchunk
    jobs = []
    for k in range(nchunk):
        ev = events[k * size : (k + 1) * size]
        if ev:
            tf = chk.work / f"tl_{tag}_{k}.json"
            tlc.write_json(tf, ev)
            jobs.append((k * size, str(tf), str(chk.work / f"tl_{tag}_{k}.out.json"), str(raw_file), str(chk.work)))
    outs = pool_map(_judge_one, jobs, procs=len(jobs))
    bad = []
    stats = {"env": 0, "funcs": 0, "interior": 0}
    meta = {}
    for (off, *_), (o, distinct) in zip(jobs, outs):
        for b in o["bad"]:
            bad.append((off + b["e"] - 1, b["c"], sorted(b["names"])))
        for k in stats:
            stats[k] += o["stats"][k]
        meta = {"nooverlap": o["nooverlap"], "boundaries": o["boundaries"], "entrydays": o["entrydays"]}
        chk.notes["trace_tlc_states"] = chk.notes.get("trace_tlc_states", 0) + distinct
    return bad, stats, meta


def _judge_one(job):
    off, tf, of, raw_file, work = job
    r = tlc.run("Trace_Timeline", "Trace_Timeline.cfg", workdir=work, env={"TRACE_FILE": tf, "OUT_FILE": of, "RAW_FILE": raw_file}, timeout=3000)
    if r.violated:
        raise tlc.TLCFailure(f"Trace_Timeline: {r.violated}\n{r.out[-1500:]}")
    return tlc.read_json(of), r.distinct


def report(chk, events, bad):
    groups = {}
    for idx, clause, names in bad:
        e = events[idx]
        if clause == "interior":
            raise RuntimeError(f"spec theorem 'constant between change days' fails at {e['iso']} {e.get('group')} {names}")
        if clause in ("funcs", "overlap"):
            for n in names or ["*"]:
                groups.setdefault(f"C07|{clause}|name={n}", []).append(e["iso"])
        else:
            for n in names or ["*"]:
                groups.setdefault(f"C07|{clause}|group={e['group']}|name={n}", []).append(e["iso"])
    for sig, days in sorted(groups.items()):
        days = sorted(set(days))
        chk.violation(sig, f"environment differs from the law in force on {len(days)} day(s): {days[0]} .. {days[-1]}", {"days": days[:50], "signature": sig})


def pollute_earlier_environments():
    from _gettsim.config import INTERNAL_PARAMS_GROUPS
    from _gettsim.policy_environment import _load_parameter_group_from_yaml, set_up_policy_environment

    def overwrite(v):
        n = 0
        if isinstance(v, dict):
            for k in list(v.keys()):
                x = v[k]
                if isinstance(x, (dict, list)):
                    n += overwrite(x)
                elif isinstance(x, np.ndarray) and x.dtype.kind in "fi":
                    x[...] = x * 3 + 11
                    n += 1
                elif isinstance(x, bool):
                    continue
                elif isinstance(x, (int, float)):
                    v[k] = x * 3 + 11
                    n += 1
                elif isinstance(x, str):
                    v[k] = x + "~"
                    n += 1
        elif isinstance(v, list):
            for i, x in enumerate(v):
                if isinstance(x, (dict, list)):
                    n += overwrite(x)
                elif isinstance(x, (int, float)) and not isinstance(x, bool):
                    v[i] = x * 3 + 11
                    n += 1
        return n

    n = 0
    for iso in ("2023-01-01", "2020-01-01", "2019-01-01", "2016-07-01", "2005-01-01", "2002-01-01"):
        try:
            params, functions = set_up_policy_environment(iso)
            n += overwrite(params)
        except Exception:  # noqa: BLE001
            pass
        d = datetime.date.fromisoformat(iso)
        for g in INTERNAL_PARAMS_GROUPS:
            try:
                n += overwrite(_load_parameter_group_from_yaml(d, g))
            except Exception:  # noqa: BLE001
                pass
    return n


def setup_derived_event(iso):
    """The Kinderzuschlag maximum of the environment of one day with the parameters it is derived from (Setup.tla)."""
    from _gettsim.policy_environment import _load_parameter_group_from_yaml

    from enc import dec

    d = datetime.date.fromisoformat(iso)
    try:
        env = gs.fresh_env(iso)[0]
    except Exception:  # noqa: BLE001
        return None
    raw = _load_parameter_group_from_yaml(d, "kinderzuschl")
    rawv = raw.get("maximum")
    obs = env.get("kinderzuschl", {}).get("maximum")
    ex = env.get("kinderzuschl", {}).get("existenzminimum", {})
    kg = env.get("kindergeld", {}).get("kindergeld")
    kg1 = (kg.get(1) if isinstance(kg, dict) else kg) or 0.0
    num = lambda x: isinstance(x, (int, float, np.integer, np.floating)) and not isinstance(x, bool)  # noqa: E731
    g = lambda a, b: ex.get(a, {}).get(b, 0.0) if isinstance(ex.get(a), dict) else 0.0  # noqa: E731
    return {"k": "kizmax", "iso": iso, "year": d.year, "rawHas": bool(num(rawv)), "raw": dec(float(rawv) if num(rawv) else 0.0), "obsHas": bool(num(obs)), "obs": dec(float(obs) if num(obs) else 0.0),
            "regel": dec(float(g("regelsatz", "kinder"))), "kdu": dec(float(g("kosten_der_unterkunft", "kinder"))), "heiz": dec(float(g("heizkosten", "kinder"))), "kg1": dec(float(kg1))}


def check_setup_derived(chk, quick):
    days = [f"{y}-{md}" for y in range(2005, 2026) for md in (("01-01",) if quick and y < 2019 else ("01-01", "07-01"))]
    evs = [e for e in pool_map(setup_derived_event, days) if e]
    tf, of = chk.work / "setup.json", chk.work / "setup.out.json"
    tlc.write_json(tf, evs)
    r = tlc.run("Trace_Setup", "Trace_Setup.cfg", workdir=chk.work, env={"TRACE_FILE": str(tf), "OUT_FILE": str(of)}, timeout=900)
    if r.violated:
        raise tlc.TLCFailure(f"Trace_Setup: {r.violated}\n{r.out[-1500:]}")
    o = tlc.read_json(of)
    chk.count(len(evs))
    chk.cov["traces_validated_against_impl"] += len(evs)
    chk.notes["setup_derived"] = {"days": len(evs), "days_with_derived_maximum": o["derived"]}
    seen = set()
    for b in o["bad"]:
        e = evs[b["e"] - 1]
        sig = f"C07|{b['c']}|year={e['year']}"
        if sig not in seen:
            seen.add(sig)
            chk.violation(sig, f"the environment of {e['iso']} holds a Kinderzuschlag maximum that is not the stated / derived one", {"date": e["iso"], "event": {k: str(v) for k, v in e.items()}})


def run(tier):
    chk = Check("C07", tier, LEVEL)
    rnd = random.Random(chk.seed * 31337 + 7)
    quick = tier == "quick"
    import mc_timeline

    mc_timeline.run_abstract(chk, quick, rnd)
    mc_timeline.replay_registration(chk, quick)
    raw = export_raw()
    impls = export_impls()
    raw_file = chk.work / "raw.json"
    tlc.write_json(raw_file, {"groups": raw, "impls": impls})
    days, nb = choose_days(raw, impls, rnd, quick)
    # "for every date" also means: whatever a caller did to environments it got earlier.  Before the observations (the workers
    # are forked from this process) a few environments and raw groups are set up and every numeric leaf they hold is
    # overwritten in place; a loader that hands out shared objects then no longer returns the law.
    chk.notes["environments_overwritten_before_observation"] = pollute_earlier_environments()
    full = set(rnd.sample(days, min(10 if quick else 60, len(days)))) | {"2023-01-01", "2021-06-01", "2022-07-01", "2005-01-01"}
    jobs = [(d, d in full) for d in sorted(set(days) | full)]
    outs = pool_map(observe_day, jobs)
    events = []
    for (iso, f), (ev, err) in zip(jobs, outs):
        events += ev
        if err:
            chk.violation(f"C07|setup-raises|{err[:60]}", f"set_up_policy_environment({iso}) raised", {"date": iso, "error": err})
    chk.count(len(events))
    bad, stats, meta = judge(chk, raw_file, events, "real")
    for e in events:
        if e["k"] == "env" and e["datum"] != e["day"]:
            chk.violation(f"C07|datum|group={e['group']}", "date stamp differs from the requested date", {"date": e["iso"]})
    chk.cov["traces_validated_against_impl"] += stats["env"] + stats["funcs"]
    chk.notes.update({"days": len(jobs), "days_full_api": len(full), "change_days": nb, "interior_env_events": stats["interior"], **meta})
    if not meta.get("nooverlap", True):
        chk.violation("C07|registry-overlap", "two implementations of one column name overlap in time", {})
    for d, f in jobs:
        chk.distinct(d)
    report(chk, events, bad)
    check_setup_derived(chk, quick)
    chk.sample({"event": {k: events[0][k] for k in ("k", "iso", "group", "src")}, "n_params": len(events[0]["params"])})
    chk.sample({"days": [j[0] for j in jobs[:12]]})
    chk.cov["rule"] = (
        "days = every change day (parameter entry, rounding entry, rule start, rule end+1) and its eve (quick: all since 2015 + seeded 24 earlier), "
        "look-back images (+365/+366), every 29 Feb / 1 Mar, seeded interior days; per day 19 group environments + the active rule table; "
        "distinct_nontrivial = distinct days observed; a seeded subset goes through set_up_policy_environment, the rest through the raw loader + load_functions_for_date"
    )
    chk.assumptions += [
        "parsed piecewise schedules are compared in raw form here and in parsed form in C18",
        "the three values derived at set-up time (kinderzuschl.maximum, einführungsfaktor…, vorsorgepauschale_rentenv_anteil) are compared in raw form; their derivation is specified separately",
        "the dated-rule registry is read from the decorators of the implementation (start/end dates are law data)",
    ]
    return chk.finish()


def replay(path):
    case = json.load(open(path))["case"]
    chk = Check("C07", "quick", LEVEL)
    raw_file = chk.work / "raw.json"
    tlc.write_json(raw_file, {"groups": export_raw(), "impls": export_impls()})
    events = []
    for d in case.get("days", [])[:8]:
        events += observe_day((d, True))[0]
    bad, stats, meta = judge(chk, raw_file, events, "replay")
    for idx, clause, names in bad:
        print(events[idx]["iso"], events[idx].get("group"), clause, names)
    return 1 if bad else 0
