"""MC_Dag: model check the specified compile pipeline; Derive conformance on the real rule base."""
from __future__ import annotations

import os
import gs
import tlc

INVS = {
    "C04": ["TargetIndependence", "SpecPrecedence"],
    "C05": ["OverrideEquivalence"],
    "C06": ["ReformLocality"],
    "C10": ["RoundedExactlyOnce"],
    "C11": ["SpecPrecedence"],
    "C13": ["UnitsByFactor", "SpecPrecedence", "AltUnitEquivalence"],
}


def run_mc(chk, quick, which):
    invs = INVS[which]
    cfg = tlc.SPEC_DIR / f"_gen_mcdag_{which}_{os.getpid()}.cfg"
    cfg.write_text(f"CONSTANTS\n  Small = {'TRUE' if quick else 'FALSE'}\n  WithPid = FALSE\nSPECIFICATION Spec\n" + "".join(f"INVARIANT {i}\n" for i in invs) + "CHECK_DEADLOCK FALSE\n")
    try:
        res = tlc.run("MC_Dag", cfg.name, workdir=chk.work, workers=16, timeout=3400)
    finally:
        cfg.unlink(missing_ok=True)
    if res.violated:
        chk.violation(f"{which}|spec-theorem|{','.join(res.violated)}", "the specified pipeline violates the property on a small universe", {"out": res.out[-3500:]})
        return
    chk.add_mc(res, f"MC_Dag[{'small' if quick else 'full'}:{','.join(invs)}]")
    w = tlc.run("MC_Dag", "MC_Dag_witness.cfg", workdir=chk.work, workers=2, timeout=600)
    if "NoWitness" not in w.violated:
        raise RuntimeError("vacuous MC_Dag: no witness configuration (valid, >=3 computable targets, rounded rule, time node, group sum)")
    chk.notes["mc_dag_witness"] = "exists"
    if which == "C13":
        # design-level root cause of the known finding (input in another unit loses a p_id aggregation): with a p_id
        # aggregation in the universe the specified pipeline itself violates AltUnitEquivalence
        p = tlc.run("MC_Dag", "MC_Dag_altunit_pid.cfg", workdir=chk.work, workers=4, timeout=900)
        chk.notes["alt_unit_with_pid_aggregation"] = "violated at the specification level (expected: root cause of the C13 known finding)" if "AltUnitEquivalence" in p.violated else "holds"


def derive_conformance(chk, date, data_cols, variations, tag):
    """Validate the implementation's function table against Derive.tla for several calls.

    variations: list of (targets, user_group_specs, user_pid_specs, extra_data_cols).
    Returns the per-case verdict records of Trace_Derive."""
    import derive

    cases = []
    for i, (targets, ug, up, extra) in enumerate(variations):
        cases.append(derive.export_case(f"{tag}:{date}:{i}", date, sorted(set(data_cols) | set(extra)), targets, ug, up))
    out, r = derive.judge(cases, str(chk.work), tag)
    chk.cov["traces_validated_against_impl"] += len(cases)
    chk.count(len(cases))
    chk.notes["trace_tlc_states"] = chk.notes.get("trace_tlc_states", 0) + r.distinct
    return out
