"""C04 — a column's value is independent of the requested targets / unused columns / options.

A  MC_Dag: TLC checks target independence on the specified pipeline (Derive + symbolic
   evaluation) for every configuration of a small name universe.
C  real rule base: runs with different target sets, debug, check_minimal_specification and
   extra unused data columns are validated by TLC (Trace_Runs: relations same / targets).
"""
from __future__ import annotations

import json
import random

import numpy as np

import gs
import popgen
import runs
from common import Check, pool_map

LEVEL = "model_checking"
DATES = ["2015-01-01", "2016-07-01", "2018-01-01", "2019-07-01", "2020-01-01", "2021-01-01", "2022-07-01", "2023-01-01", "2024-01-01", "2025-01-01"]


def dates_for(rnd, quick, nq, lo="2015-01-01", nreg=2):
    """Policy dates of a run: 2023-01-01, seeded dates of DATES, and regime dates (gs.regime_dates: every dated version of
    every rule is in force on one of them); thorough runs take all of them.  2017H1 is left to C08 / C19 (the default
    targets are not computable there: known finding of C08)."""
    reg = [d for d in gs.regime_dates(lo, "2025-12-31") if not ("2017-01-01" <= d <= "2017-06-30") and d != "2023-01-01"]
    pool = [d for d in DATES if d != "2023-01-01"]
    if quick:
        return ["2023-01-01"] + rnd.sample(pool, min(nq, len(pool))) + rnd.sample(reg, min(nreg, len(reg)))
    return ["2023-01-01"] + pool + [d for d in reg if d not in pool]


def change_dates_for(rnd, quick, nq, nreg=2):
    """For the properties quantified over every change date >= 2015-01-01 (C16, C17): thorough runs take all of them."""
    allc = [d for d in gs.change_dates("2015-01-01", "2025-12-31") if d != "2023-01-01"]
    reg = [d for d in gs.regime_dates("2015-01-01", "2025-12-31") if not ("2017-01-01" <= d <= "2017-06-30") and d != "2023-01-01"]
    if quick:
        # the law in force today (last change date) is always among the dates
        smp = rnd.sample(allc[:-1], min(nq - 1, len(allc) - 1))
        return ["2023-01-01"] + smp[:1] + [allc[-1]] + smp[1:] + rnd.sample(reg, min(nreg, len(reg)))
    return ["2023-01-01"] + allc + [d for d in reg if d not in allc]


def make_population(date, rnd, k=None, rich=False):
    names = list(popgen.CANON)
    k = k or rnd.choice([2, 3])
    structs = [popgen.CANON[rnd.choice(names)] for _ in range(k)]
    P = popgen.compose(structs, date, rnd, sparse=rnd.random() < 0.5)
    if rich:      # plus the fixed households in which every default target is positive for somebody
        P = P + popgen.rich_core(date, rnd)
    return gs.build_population(P, date), P


def job(j):
    date, seed, tid, nsets, work = j
    rnd = random.Random(seed)
    df, P = make_population(date, rnd)
    info = {"tid": tid, "date": date, "n": len(df), "persons": P, "runs": [], "errors": []}
    nodes, args = runs.nonderived_nodes(date, df)
    try:
        base, excluded = gs.compute_all(df, date, targets=nodes, rounding=True)
    except Exception as e:  # noqa: BLE001
        info["base_error"] = f"{type(e).__name__}: {str(e)[:200]}"
        return info
    cols = list(base.columns)
    tr = runs.RunTrace(work, f"c04_{tid}")
    import pandas as pd

    base_plus = pd.concat([base.reset_index(drop=True), df.reset_index(drop=True)], axis=1)
    tr.base(tid, base_plus, list(base_plus.columns), [])
    # the caller's table carries a non-default index in half of the populations
    if rnd.random() < 0.5:
        df = df.copy()
        df.index = pd.Index(rnd.sample(range(100), len(df))) if rnd.random() < 0.5 else pd.Index(list(range(len(df)))[::-1])
        info["index"] = [str(x) for x in df.index]
    dt = [t for t in gs.default_targets() if t in cols]
    plans = []
    for t in rnd.sample(dt, min(4, len(dt))):
        plans.append(("targets", [t], {}))
    # rules that depend on parameters only, requested alone (they return scalars)
    po = [n for n in cols if n in gs.env(date)[1] and all(a.endswith("_params") for a in gs.arg_names(gs.env(date)[1][n]))]
    for t in po[:3]:
        plans.append(("targets", [t], {}))
    for size in [1, 2, 3, 7, 25][:nsets]:
        for _ in range(2):
            plans.append(("targets", rnd.sample(cols, min(size, len(cols))), {}))
    # a target that creates an automatic group sum of an individual-level node
    indiv = [c for c in cols if c.endswith("_m") and f"{c}_hh" not in cols and f"{c}_hh" not in df.columns]   # the sum must be a NEW node, not an input column
    if indiv:
        t = rnd.choice(indiv)
        plans.append(("same", [t, f"{t}_hh"] + rnd.sample(cols, 3), {}))
    some = rnd.sample(cols, min(12, len(cols)))
    plans.append(("same", some, {"debug": True}))
    plans.append(("targets", some, {"check_minimal_specification": "warn"}))
    plans.append(("targets", some, {"rounding": True}))
    plans.append(("targets", list(reversed(some)), {}))
    plans.append(("targets", dt, {}))
    extra = ("extra_cols", some)
    k = 0
    for rel, targets, opts in plans:
        k += 1
        try:
            res = gs.compute(df, date, targets=targets, **opts)
        except Exception as e:  # noqa: BLE001
            info["errors"].append({"run": k, "targets": targets[:10], "opts": opts, "error": f"{type(e).__name__}: {str(e)[:160]}"})
            continue
        rc = [c for c in res.columns]
        tr.run(tid, k, rel, res, rc, requested=sorted(set(targets)))
        info["runs"].append({"run": k, "rel": rel, "targets": targets[:25], "opts": opts})
    # unused extra data columns
    d2 = df.copy()
    d2["zzz_unused_col"] = np.arange(len(df), dtype=float)
    d2["another_unused_m"] = 1.5
    # unused columns that are time-unit siblings of rule nodes (inconsistent values): the rule must win
    import re

    sib = [c for c in cols if re.search(r"_[ym]$", c) and c not in df.columns and c in gs.env(date)[1]]
    for c in rnd.sample(sib, min(2, len(sib))):
        other = c[:-1] + ("y" if c.endswith("m") else "m")
        used_somewhere = any(other in a for a in args.values())   # then supplying it is an override, not an unused column
        if other not in cols and other not in d2.columns and not used_somewhere and other not in base.columns:
            d2[other] = 777.0
            info.setdefault("sibling_cols", []).append(other)
    k += 1
    try:
        res = gs.compute(d2, date, targets=some)
        tr.run(tid, k, "targets", res, list(res.columns), requested=sorted(set(some)))
        info["runs"].append({"run": k, "rel": "targets", "targets": some, "opts": {"extra_data_columns": True}})
    except Exception as e:  # noqa: BLE001
        info["errors"].append({"run": k, "targets": some, "opts": {"extra_data_columns": True}, "error": f"{type(e).__name__}: {str(e)[:160]}"})
    out = tr.judge()
    # ---- a data column that overrides a rule, also requested as a target next to its descendants: the call may refuse
    #      loudly, but if it answers, the descendants must have the values they have without that target and the returned
    #      column must be the supplied one
    ag = _user_aggregation_runs(df, date, rnd, cols, tid, work, info)
    if ag is not None:
        out["bad"] = list(out["bad"]) + ag["bad"]
        out["stats"]["judged"] += ag["stats"]["judged"]
        out["tlc_states"] += ag["tlc_states"]
    ov = _override_runs(df, date, rnd, base, cols, tid, work, info)
    if ov is not None:
        out["bad"] = list(out["bad"]) + ov["bad"]
        out["stats"]["judged"] += ov["stats"]["judged"]
        out["tlc_states"] += ov["tlc_states"]
    info["bad"] = out["bad"]
    info["judged"] = out["stats"]["judged"]
    info["tlc_states"] = out["tlc_states"]
    info["ncols"] = len(cols)
    return info


def _user_aggregation_runs(df, date, rnd, cols, tid, work, info):
    """A user aggregation specification whose source is an automatically derived time-unit column (of an input and of a
    rule): the aggregate has the same value whatever else is requested, and requesting it alone does not raise."""
    import pandas as pd

    specs = {"verif_max_lohn_y_hh": {"aggr": "max", "source_col": "bruttolohn_y"}, "verif_sum_kg_y_hh": {"aggr": "sum", "source_col": "kindergeld_y"}}
    if "kindergeld_m" not in cols:
        specs.pop("verif_sum_kg_y_hh")
    aggs = list(specs)
    t = rnd.choice([c for c in gs.default_targets() if c in cols])
    full = aggs + [specs[a]["source_col"] for a in aggs] + [t]
    try:
        b = gs.compute(df, date, targets=full, aggregate_by_group_specs=specs)
    except Exception as e:  # noqa: BLE001
        info["errors"].append({"run": 200, "targets": full, "opts": {"aggregate_by_group_specs": True}, "error": f"{type(e).__name__}: {str(e)[:160]}"})
        return None
    tr = runs.RunTrace(work, f"c04a_{tid}")
    tid2 = tid + 2_000_000
    tr.base(tid2, b, list(b.columns), [])
    k = 200
    for targets in ([aggs[0]], aggs, aggs + [t], [aggs[-1], t]):
        k += 1
        try:
            res = gs.compute(df, date, targets=targets, aggregate_by_group_specs=specs)
        except Exception as e:  # noqa: BLE001
            info["errors"].append({"run": k, "targets": targets, "opts": {"aggregate_by_group_specs": True}, "error": f"{type(e).__name__}: {str(e)[:160]}"})
            continue
        tr.run(tid2, k, "targets", res, list(res.columns), requested=sorted(set(targets)))
        info["runs"].append({"run": k, "rel": "targets", "targets": targets, "opts": {"aggregate_by_group_specs": True}})
    # a user rule that uses built-in group aggregates (any of a flag) as NUMBERS: its value must not depend on whether the
    # aggregates themselves are requested as well
    builtin = [a for a in ("kind_anspruchsberechtigt_fg", "alleinerz_hh") if a in cols]
    if len(builtin) == 2:      # (both exist and are computable at this date)
        def verif_flags(kind_anspruchsberechtigt_fg: bool, alleinerz_hh: bool) -> float:
            return 10.0 * kind_anspruchsberechtigt_fg + 1.0 * alleinerz_hh

        fns = [gs.env(date)[1], verif_flags]
        try:
            b2 = gs.compute(df, date, functions=fns, targets=["verif_flags"])
            tid3 = tid + 3_000_000
            tr.base(tid3, b2, list(b2.columns), [])
            for targets in (["verif_flags"] + builtin, ["verif_flags", builtin[0]]):
                k += 1
                res = gs.compute(df, date, functions=fns, targets=targets)
                tr.run(tid3, k, "targets", res, list(res.columns), requested=sorted(set(targets)))
                info["runs"].append({"run": k, "rel": "targets", "targets": targets, "opts": {"user_rule_on_builtin_aggregates": True}})
        except Exception as e:  # noqa: BLE001
            info["errors"].append({"run": k, "targets": ["verif_flags"] + builtin, "opts": {"user_rule_on_builtin_aggregates": True}, "error": f"{type(e).__name__}: {str(e)[:160]}"})
    return tr.judge()


def _override_runs(df, date, rnd, base, cols, tid, work, info):
    import pandas as pd

    fns = gs.env(date)[1]
    dts = [t for t in gs.default_targets() if t in cols]
    cands = []
    for c in rnd.sample(cols, len(cols)):
        if c not in fns or c in df.columns or c.endswith("_id") or base[c].dtype.kind not in "fib" or not any(a in df.columns for a in gs.arg_names(fns[c])):
            continue
        desc = [d for d in gs.descendants_of(date, tuple(df.columns), c) if d != c and d in cols]
        if len(desc) >= 2:
            cands.append((c, desc))
        if len(cands) >= 2:
            break
    if not cands:
        return None
    tr = runs.RunTrace(work, f"c04o_{tid}")
    k = 100
    judged_any = False
    for ci, (c, desc) in enumerate(cands):
        tid2 = tid * 10 + ci + 1_000_000          # Trace_Runs starts a new base whenever the tid changes
        d3 = df.copy()
        v = base[c].to_numpy()
        d3[c] = (~v) if v.dtype.kind == "b" else (v + 1 if v.dtype.kind == "i" else v * 0.5 + 1.0)
        ts = rnd.sample(desc, min(4, len(desc)))
        try:
            b2 = gs.compute(d3, date, targets=ts)
        except Exception as e:  # noqa: BLE001
            info.setdefault("override_notes", []).append({"col": c, "base_error": f"{type(e).__name__}: {str(e)[:120]}"})
            continue
        b2p = pd.concat([b2.reset_index(drop=True), d3.reset_index(drop=True)], axis=1)
        b2p = b2p.loc[:, ~b2p.columns.duplicated()]
        tr.base(tid2, b2p, list(b2p.columns), [])
        judged_any = True
        for targets in ([ts[0]], [ts[0], c], ts + [c], [c]):
            k += 1
            try:
                res = gs.compute(d3, date, targets=targets)
            except Exception as e:  # noqa: BLE001
                # refusing a data column as a target is loud (recorded, not judged)
                info.setdefault("override_notes", []).append({"col": c, "targets": targets, "refused": f"{type(e).__name__}: {str(e)[:80]}"})
                continue
            tr.run(tid2, k, "targets", res, list(res.columns), requested=sorted(set(targets)))
            info["runs"].append({"run": k, "rel": "targets", "targets": targets, "opts": {"overriding_data_column": c}})
    if not judged_any:
        return None
    return tr.judge()


def run(tier):
    chk = Check("C04", tier, LEVEL)
    rnd = random.Random(chk.seed * 65537 + 4)
    quick = tier == "quick"
    import mc_dag

    mc_dag.run_mc(chk, quick, which="C04")
    import toy

    for m_ in toy.run_toy(chk, quick, rnd, "C04", kinds=None)[:5]:
        chk.violation(f"C04|toy-universe|target={m_['target']}|{m_['what'][:40]}", f"toy universe (MC_Dag configuration {m_['id']}): {m_['what']} for target {m_['target']}", m_)
    # 2002-01-01: the only years in which a rounding specification carries an offset (to_add_after_rounding) are 2001-2003
    dates = ["2023-01-01", "2002-01-01"] + rnd.sample([d for d in DATES if d != "2023-01-01"], 1 if quick else len(DATES) - 1)
    npop = 12 if quick else 120
    jobs = [(dates[t % len(dates)], rnd.randrange(1 << 30), t, 4 if quick else 5, str(chk.work)) for t in range(npop)]
    jobs.sort()
    outs = pool_map(job, jobs)
    for info in outs:
        if "base_error" in info:
            chk.notes.setdefault("base_errors", []).append({k: info[k] for k in ("date", "base_error")})
            continue
        chk.count(len(info["runs"]) + 1)
        chk.cov["traces_validated_against_impl"] += 1
        chk.notes["trace_tlc_states"] = chk.notes.get("trace_tlc_states", 0) + info["tlc_states"]
        for r in info["runs"]:
            chk.distinct(f"{info['tid']}:{r['run']}")
        for e in info["errors"]:
            chk.violation(f"C04|raised|{e['error'][:50]}", "a target set / option raised although all nodes are computable together", {"date": info["date"], "persons": info["persons"], **e})
        byrun = {r["run"]: r for r in info["runs"]}
        seen = set()
        for b in info["bad"]:
            key = (b["col"], b["c"])
            if key in seen:
                continue
            seen.add(key)
            r = byrun.get(b["run"], {})
            chk.violation(
                f"C04|{b['c']}|node={b['col']}",
                f"{b['col']}: {b['c']} differs between target sets/options (date {info['date']})",
                {"date": info["date"], "persons": info["persons"], "run": r, "col": b["col"], "clause": b["c"]},
            )
        chk.sample({"date": info["date"], "persons": info["n"], "columns": info["ncols"], "runs": [(r["rel"], len(r["targets"]), r["opts"]) for r in info["runs"][:6]]})
    # ---- check_minimal_specification as a specified outcome: unused data / unused overriding columns
    import minimal

    for d_ in [d for d in dates if d >= "2009-01-01"][: (1 if quick else 4)]:      # (the target sets used here need rules that exist from 2009)
        df_, P_ = make_population(d_, rnd, k=2)
        df_["kindergeld_m"] = 100.0
        df_["zzz_unused"] = 1.0
        cand = [t for t in gs.default_targets() if t != "kindergeld_m" and t in gs.env(d_)[1] or t.endswith(("_bg", "_wthh", "_eg", "_sn"))]
        tsets = [["kindergeld_m_hh", "eink_st_y_sn"], ["ges_rente_m"], ["kindergeld_m_hh"], rnd.sample(cand, min(4, len(cand)))]
        for m_ in minimal.run(chk, d_, df_, tsets, f"min{d_}"):
            chk.violation(f"C04|minimal-specification|mode={m_['mode']}", f"check_minimal_specification={m_['mode']}: reported unused columns differ from the specified ones for targets {m_['targets']} at {d_}", m_)
    chk.cov["rule"] = (
        "per population: base run with all non-time-derived nodes; related runs with single default targets, seeded target subsets of sizes 1..25, "
        "a target creating an automatic group sum, debug=True, check_minimal_specification=warn, reversed target order, default targets, unused extra data columns; "
        "distinct_nontrivial = related runs judged"
    )
    chk.assumptions += ["bit-identical comparison (same pool entry or numerically equal exact decimals)"]
    chk.notes["dates"] = dates
    return chk.finish()


def replay(path):
    case = json.load(open(path))["case"]
    chk = Check("C04", "quick", LEVEL)
    date = case["date"]
    df = gs.build_population(case["persons"], date)
    nodes, _ = runs.nonderived_nodes(date, df)
    base, _ = gs.compute_all(df, date, targets=nodes)
    tr = runs.RunTrace(str(chk.work), "replay")
    tr.base(0, base, list(base.columns), [])
    r = case.get("run") or {}
    oc = (r.get("opts") or {}).get("overriding_data_column")
    if oc:
        # the column oc is supplied as (perturbed) data; the descendants requested without oc are the reference
        v = base[oc].to_numpy()
        df = df.copy()
        df[oc] = (~v) if v.dtype.kind == "b" else (v + 1 if v.dtype.kind == "i" else v * 0.5 + 1.0)
        ref = gs.compute(df, date, targets=[t for t in r["targets"] if t != oc] or [case["col"]])
        res = gs.compute(df, date, targets=r["targets"])
        bad = [c for c in ref.columns if c in res.columns and not np.array_equal(ref[c].to_numpy(), res[c].to_numpy(), equal_nan=True)]
        if oc in res.columns and not np.array_equal(res[oc].to_numpy(), df[oc].to_numpy()):
            bad.append(oc)
        print("bad:", bad)
        return 1 if bad else 0
    res = gs.compute(df, date, targets=r.get("targets") or [case["col"]], **{k: v for k, v in (r.get("opts") or {}).items() if k != "extra_data_columns"})
    tr.run(0, 1, "same", res, list(res.columns))
    out = tr.judge()
    print("bad:", out["bad"][:10])
    return 1 if out["bad"] else 0
