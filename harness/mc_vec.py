"""MC_Vec: TLC enumerates restricted-style programs with predicted outcomes (Visit + scalar and
array semantics); every program is rendered to Python and goes through the real
make_vectorizable; real scalar vs real array results are judged by TLC (Trace_Vec)."""
from __future__ import annotations

import ast
import importlib.util
import sys
from pathlib import Path

import numpy as np

import tlaval
import tlc
import vec


def to_ast(x):
    if isinstance(x, (tuple, list)):
        return [to_ast(i) for i in x]
    if x["k"] == "list":
        return [to_ast(i) for i in x["items"]]
    if x["k"] == "prim":
        t, _, r = x["v"].partition(":")
        return eval(r)  # noqa: S307 - literals produced by the specification ("int:1", "str:'a'", "bool:True")
    cls = getattr(ast, x["t"])
    f = x["f"] if isinstance(x["f"], dict) else {}
    kw = {k: to_ast(v) for k, v in f.items()}
    node = cls(**kw)
    return node


def render(body, name):
    fn = ast.FunctionDef(
        name=name,
        args=ast.arguments(posonlyargs=[], args=[ast.arg("a"), ast.arg("b"), ast.arg("c")], kwonlyargs=[], kw_defaults=[], defaults=[]),
        body=to_ast(body),
        decorator_list=[],
        type_params=[],
    )
    mod = ast.Module(body=[fn], type_ignores=[])
    ast.fix_missing_locations(mod)
    return ast.unparse(mod)


def run_mc(chk, quick, rnd):
    from _gettsim.vectorization import TranslateToVectorizableError, make_vectorizable

    dump = chk.work / "vec"
    res = tlc.run("MC_Vec", "MC_Vec_small.cfg" if quick else "MC_Vec_full.cfg", workdir=chk.work, workers=16, dump=dump, timeout=3300)
    if res.violated:
        chk.violation(f"C09|spec-theorem|{','.join(res.violated)}", "a restricted-style program is silently mistranslated by the specified rewrite without exhibiting a documented quirk", {"out": res.out[-3000:]})
        return
    chk.add_mc(res, f"MC_Vec[{'small' if quick else 'full'}]")
    states = [s for s in tlaval.read_dump(str(dump) + ".dump") if s.get("stage") == 2]
    Path(str(dump) + ".dump").unlink()
    # one module file with all programs (inspect.getsource needs a file)
    src = ["import numpy  # noqa\n"]
    for i, st in enumerate(states):
        src.append(render(st["prog"], f"p{i}") + "\n")
    modfile = chk.work / "vecprogs.py"
    modfile.write_text("\n".join(src), encoding="utf-8")
    spec = importlib.util.spec_from_file_location("vecprogs", modfile)
    mod = importlib.util.module_from_spec(spec)
    sys.modules["vecprogs"] = mod
    spec.loader.exec_module(mod)
    events, owner = [], []
    diverge = []
    n_unfaithful_pred = 0
    for i, st in enumerate(states):
        f = getattr(mod, f"p{i}")
        pred = st["res"]
        cls = sorted(pred["cls"]) if not isinstance(pred["cls"], (list, tuple)) or pred["cls"] else []
        if not pred["faithful"]:
            n_unfaithful_pred += 1
        try:
            vf = make_vectorizable(f, "numpy")
            visit = "ok"
        except TranslateToVectorizableError:
            vf, visit = None, "err"
        except Exception as e:  # noqa: BLE001
            vf, visit = None, "other:" + type(e).__name__
        if visit != pred["visit"]:
            diverge.append({"prog": i, "what": "rewrite outcome", "spec": pred["visit"], "code": visit, "source": src[i + 1]})
            if vf is None:
                continue
        if vf is None:
            continue
        sc_all, ar_all, aerr_any = [], [], ""
        inputs = [r["inp"] for r in pred["runs"]] if pred["runs"] else [((-1, 0, 0), (2, 2, 1)), ((2, 0, 1), (-1, 2, 0))]
        for k, inp in enumerate(inputs):
            rows = [tuple(r) for r in inp]
            sc = [f(r[0], r[1], bool(r[2])) for r in rows]
            try:
                out = vf(np.array([r[0] for r in rows]), np.array([r[1] for r in rows]), np.array([bool(r[2]) for r in rows]))
                out = np.asarray(out)
                if out.ndim == 0:
                    out = np.broadcast_to(out, (len(rows),))
                ar = out.tolist()
                aerr = ""
            except Exception as e:  # noqa: BLE001
                ar, aerr = [], type(e).__name__
            if pred["runs"]:
                p = pred["runs"][k]
                if [int(x) for x in sc] != list(p["sc"]):
                    diverge.append({"prog": i, "what": "scalar semantics", "spec": list(p["sc"]), "code": [int(x) for x in sc], "source": src[i + 1], "inp": rows})
                if bool(aerr) != bool(p["aerr"]) or (not aerr and [int(x) for x in ar] != list(p["ar"])):
                    diverge.append({"prog": i, "what": "array semantics", "spec": "callerr" if p["aerr"] else list(p["ar"]), "code": aerr or [int(x) for x in ar], "source": src[i + 1], "inp": rows})
            if aerr:
                aerr_any = aerr
                continue
            sc_all += [vec.canon(x) for x in sc]
            ar_all += [vec.canon(x) for x in ar]
        events.append({"k": "values", "name": f"p{i}", "scalar": sc_all, "array": ar_all, "aerr": "" if sc_all else aerr_any})
        owner.append((i, cls))
    chk.count(len(states))
    chk.cov["programs"] = chk.cov.get("programs", 0) + len(states)
    import c09

    bad, tstates = c09.judge(events, chk.work, "progs")
    chk.cov["traces_validated_against_impl"] += len(events)
    chk.cov["disagreements_checked"] = chk.cov.get("disagreements_checked", 0) + len(bad) + len(diverge)
    chk.notes["mc_vec"] = {"programs": len(states), "predicted_unfaithful": n_unfaithful_pred, "real_silent_differences": len(bad), "spec_code_divergences": len(diverge)}
    byclass = {}
    for idx, clause in bad:
        i, cls = owner[idx]
        for key in cls or ["unclassified"]:
            byclass.setdefault(key, []).append(i)
    for key, idxs in sorted(byclass.items()):
        i = min(idxs, key=lambda j: len(src[j + 1]))
        chk.violation(
            f"C09|restricted-style|class={key}",
            f"{len(idxs)} restricted-style program(s) whose array form silently returns other numbers; shortest:\n{src[i + 1]}",
            {"class": key, "n_programs": len(idxs), "source": src[i + 1], "more": [src[j + 1] for j in idxs[1:4]]},
        )
    # the specification must predict the real transformer + numpy exactly on these programs; a
    # divergence means Vec.tla / VecSem.tla no longer describe the code (reported, not a violation
    # of C09 by itself: silent differences are judged above)
    chk.notes["divergences"] = diverge[:10]
    if diverge:
        seen = set()
        for d in diverge:
            if d["what"] == "scalar semantics":
                raise RuntimeError(f"VecSem.SEval disagrees with Python on a program: {d}")
        chk.notes["divergence_kinds"] = sorted({d["what"] for d in diverge})
    for i, st in enumerate(states[:2]):
        chk.sample({"program": src[i + 1], "predicted": {"visit": st["res"]["visit"], "faithful": st["res"]["faithful"]}})
