"""Shared driver for derived units (C01 registry part, C12): TLC enumerates pointer structures
(MC_Households), the implementation's id functions are run on every row order / labelling,
and TLC validates the recorded observations (Trace_Households)."""
from __future__ import annotations

import os
import itertools
import random
from pathlib import Path

import numpy as np

import gs
import tlaval
import tlc
from common import NCPU, pool_map

COLS = ["eg", "ehe", "sn", "fg", "bg", "wthh"]


def write_cfg(path, maxn, ages, nhh, family, marriage, invariants=("InvNesting", "InvBgInWthh", "InvTwoGenerations", "InvPointers")):
    ages_s = "{" + ", ".join(str(a) for a in ages) + "}"
    txt = (
        "CONSTANTS\n"
        f"  MaxN = {maxn}\n  Ages = {ages_s}\n  NHH = {nhh}\n"
        f"  Family = {'TRUE' if family else 'FALSE'}\n  Marriage = {'TRUE' if marriage else 'FALSE'}\n"
        "SPECIFICATION Spec\n" + "".join(f"INVARIANT {i}\n" for i in invariants) + "CHECK_DEADLOCK FALSE\n"
    )
    Path(path).write_text(txt)


def enumerate_structures(work, name, maxn, ages, nhh, family, marriage, workers=NCPU, simulate=None, seed=0, depth=None):
    """Run MC_Households; returns (TLCResult, [pop, ...]) with pop a list of person dicts."""
    cfg = tlc.SPEC_DIR / f"_gen_{name}_{os.getpid()}.cfg"
    write_cfg(cfg, maxn, ages, nhh, family, marriage)
    dump = Path(work) / f"dump_{name}"
    try:
        if simulate:
            res = tlc.run("MC_Households", cfg.name, workdir=work, workers=1, simulate=simulate, depth=depth or maxn + 1, seed=seed, timeout=1200)
            pops = []
        else:
            res = tlc.run("MC_Households", cfg.name, workdir=work, workers=workers, dump=dump, timeout=3000)
            states = tlaval.read_dump(str(dump) + ".dump")
            pops = [s["pop"] for s in states if s.get("pop")]
    finally:
        cfg.unlink(missing_ok=True)
        Path(str(dump) + ".dump").unlink(missing_ok=True)
    return res, pops


def _sim_one(job):
    work, name, maxn, ages, nhh, family, marriage, num, seed = job
    import glob
    import shutil

    cfg = tlc.SPEC_DIR / f"_gen_{name}_{seed}_{os.getpid()}.cfg"
    write_cfg(cfg, maxn, ages, nhh, family, marriage, invariants=("InvNesting", "InvPointers"))
    d = Path(work) / f"sim_{name}_{seed}"
    d.mkdir(parents=True, exist_ok=True)
    try:
        res = tlc.run("MC_Households", cfg.name, workdir=work, workers=1, simulate=f"file={d}/b,num={num}", depth=maxn + 1, seed=seed, timeout=3000)
    finally:
        cfg.unlink(missing_ok=True)
    pops = []
    for f in sorted(glob.glob(f"{d}/b_*")):
        beh = tlaval.read_behaviour(f)
        if beh:
            pop = beh[-1][1].get("pop")
            if pop and len(pop) == maxn:
                pops.append(list(pop))
    shutil.rmtree(d, ignore_errors=True)
    return res, pops


def simulate_structures(work, name, maxn, ages, nhh, family, marriage, num, seed, procs=NCPU):
    """Random behaviours of MC_Households (`tlc -simulate`), one TLC per worker; returns the final populations."""
    per = max(1, num // procs)
    jobs = [(str(work), name, maxn, ages, nhh, family, marriage, per, seed * 100 + k + 1) for k in range(procs)]
    outs = pool_map(_sim_one, jobs, procs=procs)
    pops = [p for _, ps in outs for p in ps]
    gen = sum(r.generated for r, _ in outs)
    viol = [v for r, _ in outs for v in r.violated]
    return gen, viol, pops


def canon(ids):
    """Rename labels by first occurrence (a pure renaming: the induced partition is unchanged)."""
    m = {}
    out = []
    for x in ids:
        if x not in m:
            m[x] = len(m)
        out.append(m[x])
    return out


def labelling(n, kind, rnd):
    """identity i (1..n) -> p_id label; hh label -> hh_id."""
    if kind == "dense":
        pid = {i: i - 1 for i in range(1, n + 1)}
    elif kind == "reverse":
        pid = {i: n - i for i in range(1, n + 1)}
    elif kind == "sparse":
        vals = rnd.sample(range(0, 10_000), n)
        pid = {i: vals[i - 1] for i in range(1, n + 1)}
    else:
        raise ValueError(kind)
    return pid


def arrays(pop, order, pid, hhmap=None):
    """Row arrays for the implementation, rows in `order` (list of identities)."""
    hhmap = hhmap or {}
    ptr = lambda v: -1 if v == 0 else pid[v]  # noqa: E731
    rows = [pop[i - 1] for i in order]
    a = {
        "p_id": np.array([pid[i] for i in order], dtype=np.int64),
        "hh_id": np.array([hhmap.get(r["hh"], r["hh"]) for r in rows], dtype=np.int64),
        "alter": np.array([r["age"] for r in rows], dtype=np.int64),
        "p_id_einstandspartner": np.array([ptr(r["partner"]) for r in rows], dtype=np.int64),
        "p_id_ehepartner": np.array([ptr(r["spouse"]) for r in rows], dtype=np.int64),
        "gemeinsam_veranlagt": np.array([r["gv"] for r in rows], dtype=bool),
        "p_id_elternteil_1": np.array([ptr(r["e1"]) for r in rows], dtype=np.int64),
        "p_id_elternteil_2": np.array([ptr(r["e2"]) for r in rows], dtype=np.int64),
        "eigenbedarf_gedeckt": np.array([r["eb"] for r in rows], dtype=bool),
        "wv": np.array([r["wv"] for r in rows], dtype=bool),
    }
    return a


def run_registry(pop, order, pid, hhmap=None):
    """One observation through the implementation's id functions (create_groupings registry)."""
    from _gettsim.groupings import create_groupings

    g = create_groupings()
    a = arrays(pop, order, pid, hhmap)
    n = len(order)
    obs = {"err": ""}
    try:
        eg = g["eg_id"](a["p_id"], a["p_id_einstandspartner"])
        ehe = g["ehe_id"](a["p_id"], a["p_id_ehepartner"])
        sn = g["sn_id"](a["p_id"], a["p_id_ehepartner"], a["gemeinsam_veranlagt"])
        fg = g["fg_id"](a["p_id"], a["hh_id"], a["alter"], a["p_id_einstandspartner"], a["p_id_elternteil_1"], a["p_id_elternteil_2"])
        bg = g["bg_id"](np.asarray(fg), a["alter"], a["eigenbedarf_gedeckt"])
        wthh = g["wthh_id"](a["hh_id"], a["wv"], np.zeros(n, dtype=bool))
        cols = {"eg": eg, "ehe": ehe, "sn": sn, "fg": fg, "bg": bg, "wthh": wthh}
        pos = {i: k for k, i in enumerate(order)}
        for c, v in cols.items():
            v = np.asarray(v).tolist()
            if len(v) != n:
                raise ValueError(f"{c}: wrong length")
            obs[c] = canon([v[pos[i]] for i in range(1, n + 1)])
    except Exception as e:  # noqa: BLE001
        obs = {"err": type(e).__name__}
        for c in COLS:
            obs[c] = [0] * n
    return obs


def persons_for_api(pop, pid, hhmap=None, extra=None):
    hhmap = hhmap or {}
    ptr = lambda v: -1 if v == 0 else pid[v]  # noqa: E731
    P = []
    for i, r in enumerate(pop, start=1):
        d = {
            "p_id": pid[i],
            "hh_id": hhmap.get(r["hh"], r["hh"]),
            "alter": r["age"],
            "p_id_einstandspartner": ptr(r["partner"]),
            "p_id_ehepartner": ptr(r["spouse"]),
            "gemeinsam_veranlagt": bool(r["gv"]),
            "p_id_elternteil_1": ptr(r["e1"]),
            "p_id_elternteil_2": ptr(r["e2"]),
            "eigenbedarf_gedeckt": bool(r["eb"]),
            "kind": bool(r["age"] < 18),
            "p_id_kindergeld_empf": ptr(r["e1"]) if r["age"] < 25 else -1,
        }
        if extra:
            d.update(extra(i, r))
        P.append(d)
    return P


ID_TARGETS = ["eg_id", "ehe_id", "sn_id", "fg_id", "bg_id", "wthh_id"]


def run_api(pop, order, pid, date, hhmap=None):
    """One observation through compute_taxes_and_transfers (public API)."""
    n = len(order)
    P = persons_for_api(pop, pid, hhmap)
    df = gs.build_population(P, date)
    df["wohngeld_vorrang_bg"] = [bool(r["wv"]) for r in pop]
    df["wohngeld_kinderzuschl_vorrang_bg"] = False
    byid = {pid[i]: k for k, i in enumerate(range(1, n + 1))}
    df = df.iloc[[byid[pid[i]] for i in order]].reset_index(drop=True)
    obs = {"err": ""}
    try:
        res = gs.compute(df, date, targets=ID_TARGETS)
        pos = {i: k for k, i in enumerate(order)}
        for c in COLS:
            v = res[c + "_id"].tolist()
            obs[c] = canon([v[pos[i]] for i in range(1, n + 1)])
    except Exception as e:  # noqa: BLE001
        obs = {"err": type(e).__name__ + ":" + str(e)[:60]}
        for c in COLS:
            obs[c] = [0] * n
    return obs


def orders_for(n, rnd, max_orders=None):
    allp = list(itertools.permutations(range(1, n + 1)))
    if max_orders is None or len(allp) <= max_orders:
        return allp
    keep = [allp[0], allp[-1]] + rnd.sample(allp[1:-1], max_orders - 2)
    return keep


def observe_registry_all(args):
    pop, seed, max_orders = args
    rnd = random.Random(seed)
    n = len(pop)
    seen = {}
    cnt = 0
    for kind in ("dense", "sparse"):
        pid = labelling(n, kind, rnd)
        # injective household labellings for any number of households: identity, and a sparse non-monotone one
        hhmap = {h: h for h in range(12)} if kind == "dense" else {h: (7 * h + 5) % 23 + 100 * (h % 2) for h in range(12)}
        for order in orders_for(n, rnd, max_orders):
            o = run_registry(pop, list(order), pid, hhmap)
            cnt += 1
            key = tuple((c, tuple(o[c])) for c in COLS) + (o["err"],)
            if key not in seen:
                seen[key] = o
    return {"pop": pop, "obs": list(seen.values())}, cnt


def judge(events, work, tag="u", procs=NCPU):
    """Validate events with Trace_Households (TLC); returns (verdicts [(event idx, clause)], stats)."""
    if not events:
        return [], {"judged": 0, "unambiguous": 0, "tlc_s": 0.0}
    work = Path(work)
    nchunk = max(1, min(procs, (len(events) + 199) // 200))
    size = (len(events) + nchunk - 1) // nchunk
    jobs = []
    for k in range(nchunk):
        ev = events[k * size : (k + 1) * size]
        if not ev:
            continue
        tf = work / f"trace_{tag}_{k}.json"
        of = work / f"out_{tag}_{k}.json"
        tlc.write_json(tf, ev)
        jobs.append((k * size, str(tf), str(of), str(work)))
    outs = pool_map(_judge_one, jobs, procs=len(jobs))
    verdicts = []
    stats = {"judged": 0, "unambiguous": 0, "tlc_s": 0.0, "tlc_states": 0}
    for (off, _, _, _), (o, wall, distinct) in zip(jobs, outs):
        stats["judged"] += o["stats"]["judged"]
        stats["unambiguous"] += o["stats"]["unambiguous"]
        stats["tlc_s"] = max(stats["tlc_s"], wall)
        stats["tlc_states"] += distinct
        for b in o["bad"]:
            verdicts.append((off + b["e"] - 1, b["c"]))
    return verdicts, stats


def _judge_one(job):
    off, tf, of, work = job
    r = tlc.run("Trace_Households", "Trace_Households.cfg", workdir=work, env={"TRACE_FILE": tf, "OUT_FILE": of}, workers=1, timeout=3000)
    if r.violated:
        raise tlc.TLCFailure(f"Trace_Households: {r.violated}\n{r.out[-2000:]}")
    o = tlc.read_json(of)
    return o, r.wall_s, r.distinct
