"""Lossless encodings between Python/numpy values and TLC-readable JSON (DESIGN.md 3.3).

JSON for TLC may only contain ints < 2^31, strings, booleans, arrays and objects.  Numbers
are passed as exact decimals in limb form (see spec/Dec.tla): this is a format conversion
(decimal.Decimal(float) is exact), never a rounding.
"""
from __future__ import annotations

import datetime
import decimal
import math

import numpy as np

_CTX = decimal.Context(prec=2000)


def dec_written(x):
    """Dec record of a statutory constant AS WRITTEN (0.01 in a parameter file means one hundredth, not the double next to it):
    floats are taken at their shortest decimal representation."""
    if isinstance(x, (np.floating,)):
        x = float(x)
    if isinstance(x, float) and math.isfinite(x):
        return dec(decimal.Decimal(repr(x)))
    return dec(x)


def dec(x):
    """Exact Dec record for an int / float / Decimal / numpy scalar."""
    if isinstance(x, (bool, np.bool_)):
        x = int(x)
    if isinstance(x, (np.integer,)):
        x = int(x)
    if isinstance(x, (np.floating,)):
        x = float(x)
    if isinstance(x, float):
        if math.isnan(x):
            return {"s": 2, "f": 0, "d": []}
        if math.isinf(x):
            return {"s": 3 if x > 0 else -3, "f": 0, "d": []}
        d = decimal.Decimal(x)
    elif isinstance(x, int):
        d = decimal.Decimal(x)
    elif isinstance(x, decimal.Decimal):
        d = x
    elif isinstance(x, str):
        d = decimal.Decimal(x)
    else:
        raise TypeError(type(x))
    if d == 0:
        return {"s": 0, "f": 0, "d": []}
    sign, digits, exp = d.as_tuple()
    n = int("".join(map(str, digits)))
    # value = n * 10^exp ; want n' * 10^(-4 f)
    if exp >= 0:
        n *= 10**exp
        f = 0
    else:
        k = -exp
        pad = (-k) % 4
        n *= 10**pad
        f = (k + pad) // 4
    limbs = []
    while n:
        limbs.append(n % 10000)
        n //= 10000
    # strip low zero limbs while fractional
    while f > 0 and limbs and limbs[0] == 0:
        limbs.pop(0)
        f -= 1
    return {"s": -1 if sign else 1, "f": f, "d": limbs}


def undec(r):
    if r["s"] == 2:
        return decimal.Decimal("NaN")
    if r["s"] in (3, -3):
        return decimal.Decimal("Infinity") * (1 if r["s"] > 0 else -1)
    n = 0
    for i, l in enumerate(r["d"]):
        n += l * 10000**i
    return _CTX.multiply(decimal.Decimal(r["s"] * n), decimal.Decimal(10) ** (-4 * r["f"]))


def kind_of_dtype(dt) -> str:
    k = np.dtype(dt).kind
    return {"f": "f", "i": "i", "u": "i", "b": "b", "M": "d", "m": "t", "O": "o", "U": "s"}.get(k, k)


class Pool:
    """Value pool: cells are indices; identical bit patterns share an index (dedupe only)."""

    def __init__(self):
        self.items = []
        self._idx = {}

    def put(self, v):
        key, rec = self._key(v)
        i = self._idx.get(key)
        if i is None:
            self.items.append(rec)
            i = len(self.items)  # 1-based for TLA+
            self._idx[key] = i
        return i

    @staticmethod
    def _key(v):
        if isinstance(v, (bool, np.bool_)):
            return ("b", bool(v)), {"t": "b", "v": dec(int(v))}
        if isinstance(v, (int, np.integer)):
            return ("i", int(v)), {"t": "i", "v": dec(int(v))}
        if isinstance(v, (float, np.floating)):
            f = float(v)
            if math.isnan(f):
                return ("f", "nan"), {"t": "f", "v": dec(f)}
            return ("f", f.hex()), {"t": "f", "v": dec(f)}
        if isinstance(v, (np.datetime64, datetime.date)):
            if isinstance(v, np.datetime64):
                if np.isnat(v):
                    return ("d", "nat"), {"t": "d", "v": {"s": 2, "f": 0, "d": []}}
                days = int(v.astype("datetime64[D]").astype(np.int64))
            else:
                days = v.toordinal() - 719163
            return ("d", days), {"t": "d", "v": dec(days)}
        if isinstance(v, (np.timedelta64,)):
            days = int(v.astype("timedelta64[D]").astype(np.int64))
            return ("t", days), {"t": "t", "v": dec(days)}
        if isinstance(v, str):
            return ("s", v), {"t": "s", "v": {"s": 2, "f": 0, "d": []}, "str": v}
        if v is None:
            return ("n",), {"t": "n", "v": {"s": 2, "f": 0, "d": []}}
        raise TypeError(f"cannot pool {type(v)}")

    def column(self, arr):
        a = np.asarray(arr)
        return [self.put(x) for x in a.tolist()] if a.dtype.kind in "fiub" else [self.put(x) for x in a]


def tag(v):
    """Tagged-string leaf for equality-only comparison (YAML leaves, dict keys)."""
    if isinstance(v, (bool, np.bool_)):
        return "b" + str(bool(v))
    if isinstance(v, (int, np.integer)):
        return "i" + str(int(v))
    if isinstance(v, (float, np.floating)):
        return "f" + repr(float(v))
    if v is None:
        return "n"
    if isinstance(v, str):
        return "s" + v
    if isinstance(v, np.datetime64):
        return "D" + str(v.astype("datetime64[D]"))
    if isinstance(v, datetime.date):
        return "d" + v.isoformat()
    if isinstance(v, (list, tuple)):
        return "l[" + ",".join(tag(x) for x in v) + "]"
    if isinstance(v, np.ndarray):
        return "a[" + ",".join(tag(x) for x in v.tolist()) + "]"
    raise TypeError(type(v))
