"""C08 — every supported date yields a complete, computable system.

A/C  for every class of days between change days >= 2015-01-01 (each parameter entry, rounding
     entry, rule start, rule end + 1; the day itself and its eve): Complete.tla derives the
     dependency graph of the default targets from the rules active that day and the documented
     inputs, and TLC checks: acyclic, every leaf a documented input, every rounded rule has a
     rounding specification that day (Trace_Complete).
Expl at every class the default targets are computed on branch-diverse populations (every
     household type of the generator, table-boundary values for dynamic parameter look-ups:
     household size, Mietstufe, birth cohort, degree of disability, age); any exception is a
     violation with the rule that raised.
"""
from __future__ import annotations

import datetime
import json
import random

import derive
import gs
import popgen
import tlc
from common import Check, pool_map

LEVEL = "model_checking"


def class_days(quick, rnd):
    import c07

    raw = c07.export_raw()
    impls = c07.export_impls()
    lo = datetime.date(2015, 1, 1).toordinal()
    days = set()
    for g in raw:
        for p in g["params"]:
            days |= {e["day"] for e in p["entries"]}
        for r in g["rounding"]:
            days |= {e["day"] for e in r["entries"]}
    days |= {i["start"] for i in impls if i["dated"]} | {i["end"] + 1 for i in impls if i["dated"] and i["end"] < 3000000}
    last = max(d for d in days if d < 3000000)
    b = sorted(d for d in days if lo <= d <= last)
    allb = sorted(set(b) | {d - 1 for d in b if d - 1 >= lo} | {lo})
    return [datetime.date.fromordinal(d).isoformat() for d in allb], [datetime.date.fromordinal(d).isoformat() for d in b]


def diverse_population(date, rnd, tid):
    kinds = list(popgen.CANON)
    k = tid % 5
    if k == 4:
        # the domain of the inputs that index parameter tables: every Mietstufe with a household of seven (tables by
        # household size have a separate entry for "every further person"), every degree of disability step, old and young cohorts
        fam7 = [popgen.rec(partner=2, spouse=2, gv=True), popgen.rec(partner=1, spouse=1, gv=True)] + [popgen.rec(age=24, e1=1, e2=2) for _ in range(5)]
        P = popgen.compose([fam7] * 7 + [popgen.CANON["couple_married"]], date, rnd)
        hhs = sorted({p["hh_id"] for p in P})
        grades = [0, 20, 25, 30, 35, 40, 45, 50, 55, 60, 65, 70, 75, 80, 85, 90, 95, 100]
        try:   # the Mietstufen that exist on this date (six before 2020, seven since): the columns of the one-person row
            stufen = sorted(int(x) for x in gs.env(date)[0]["wohngeld"]["max_miete"][1])
        except Exception:  # noqa: BLE001
            stufen = [1, 2, 3, 4, 5, 6]
        for j, p in enumerate(P):
            p["mietstufe"] = stufen[hhs.index(p["hh_id"]) % len(stufen)]
            p["behinderungsgrad"] = grades[j % len(grades)]
        for p, a in zip(P[-2:], (95, 63)):
            p.update({"alter": a, "geburtsjahr": gs.year_of(date) - a, "rentner": True, "jahr_renteneintr": gs.year_of(date) - a + 63, "bruttolohn_m": 0.0})
        return gs.build_population(P, date), P
    if k == 0:
        structs = [popgen.CANON[x] for x in ("family_3", "single_parent_2", "pensioner" if False else "three_gen", "single")]
    elif k == 1:
        structs = [popgen.CANON[x] for x in ("couple_unmarried", "patchwork", "self_sufficient_child", "adult_child")]
    else:
        structs = [popgen.CANON[rnd.choice(kinds)] for _ in range(4)]
    prof = {}
    if k == 2:   # table boundaries for dynamic look-ups
        prof = {"mietstufe": lambda i, r, d, rr: rr.choice([1, 6]), "behinderungsgrad": lambda i, r, d, rr: rr.choice([0, 20, 25, 100]), "geburtsmonat": lambda i, r, d, rr: rr.choice([1, 12])}
    P = popgen.compose(structs, date, rnd, profile=prof)
    if k == 3:   # a household of ten, pensioners of extreme cohorts
        for p in P:
            p["hh_id"] = 0
            for c in ("bruttokaltmiete_m_hh", "heizkosten_m_hh", "wohnfläche_hh", "bewohnt_eigentum_hh", "immobilie_baujahr_hh", "mietstufe", "wohnort_ost"):
                p[c] = P[0][c]
        for p in P[:2]:
            p["alter"] = rnd.choice([63, 67, 75, 99])
            p["geburtsjahr"] = gs.year_of(date) - p["alter"]
            p["rentner"] = True
            p["jahr_renteneintr"] = p["geburtsjahr"] + rnd.choice([60, 63, 65, 67])
    return gs.build_population(P, date), P


def day_job(job):
    iso, seed, npop = job
    rnd = random.Random(seed)
    from _gettsim.config import DEFAULT_TARGETS

    params, functions = gs.env(iso)
    data_cols = sorted(gs.input_types())
    case = derive.export_case(iso, iso, data_cols, [], functions=functions) if False else None
    from _gettsim.functions_loader import load_aggregation_dict

    def rk(fn):
        return (getattr(fn, "__info__", None) or {}).get("params_key_for_rounding", "") or ""

    case = {
        "id": iso,
        "fns": [{"name": n, "args": sorted(derive.gs_all_args(fn)), "round": rk(fn)} for n, fn in functions.items()],
        "bgrp": [derive.spec(k, v) for k, v in load_aggregation_dict("aggregate_by_group").items()],
        "bpid": [derive.spec(k, v) for k, v in load_aggregation_dict("aggregate_by_p_id").items()],
        "data": data_cols,
        "targets": list(DEFAULT_TARGETS),
        "rspecs": [{"key": g, "name": n} for g, v in params.items() if isinstance(v, dict) for n in (v.get("rounding") or {})],
    }
    # static parameter reads of the rules in the dependency graph of the default targets (candidates, judged by TLC
    # against the environment the law prescribes for the day)
    import networkx as nx

    import reads

    g_ = nx.DiGraph()
    for n, fn in functions.items():
        for a in gs.arg_names(fn):
            g_.add_edge(a, n)
    anc = set()
    fno, _fo = gs.function_table(iso, data_cols, [t for t in DEFAULT_TARGETS if t in functions or True])
    gg = nx.DiGraph()
    for n, fn in fno.items():
        gg.add_node(n)
        for a in gs.arg_names(fn):
            gg.add_edge(a, n)
    for t in DEFAULT_TARGETS:
        if t in gg:
            anc |= nx.ancestors(gg, t) | {t}
    items = []
    for n in sorted(anc):
        if n in functions:
            for grp, k in sorted(reads.reads_of(functions[n])):
                items.append({"rule": n, "group": grp, "key": k})
    case["reads"] = {"k": "reads", "day": datetime.date.fromisoformat(iso).toordinal(), "iso": iso, "items": items}
    runs_ = []
    for t in range(npop):
        df, P = diverse_population(iso, rnd, t)
        try:
            gs.compute(df, iso, targets=list(DEFAULT_TARGETS))
            runs_.append({"ok": True})
        except Exception as e:  # noqa: BLE001
            by_py = {getattr(f, "__name__", n): n for n, f in functions.items()}
            rule = gs._blame(e, by_py)
            runs_.append({"ok": False, "error": f"{type(e).__name__}: {str(e)[:120]}".replace("\n", " "), "rule": rule, "persons": P, "etype": type(e).__name__})
    return case, runs_


def _confirm_read(job):
    """Dynamic witness for a static candidate: call the rule on drawn rows; report a KeyError naming the key."""
    d_, nm = job
    import inspect

    import vec

    rule, path = nm.split(":")
    key = path.split(".", 1)[1]
    params, functions = gs.env(d_)
    f = functions.get(rule)
    if f is None:
        return d_, nm, ""
    rnd = random.Random(hash((d_, nm)) % (1 << 30))
    names = list(inspect.signature(f).parameters)
    ann = getattr(f, "__annotations__", {})
    pargs = {a: params.get(a[:-7], {}) for a in names if a.endswith("_params")}
    for _ in range(80):
        row = {a: vec.draw(a, ann.get(a), rnd) for a in names if not a.endswith("_params")}
        try:
            f(**row, **pargs)
        except KeyError as e:
            if key in str(e):
                return d_, nm, f"KeyError {e} for arguments {row}"
        except Exception:  # noqa: BLE001
            continue
    return d_, nm, ""


def run(tier):
    chk = Check("C08", tier, LEVEL)
    rnd = random.Random(chk.seed * 65537 + 8)
    quick = tier == "quick"
    days, boundaries = class_days(quick, rnd)
    if quick:
        # one representative per class: the LAST day of every interval between change days (the eve of the next
        # change day), plus the first day of a seeded few; thorough takes first and last day of every interval
        eves = {datetime.date.fromordinal(datetime.date.fromisoformat(b).toordinal() - 1).isoformat() for b in boundaries}
        eves = {d for d in eves if d >= "2015-01-01"} | {boundaries[-1], "2015-01-01"}
        days = sorted(eves | set(rnd.sample(boundaries, min(8, len(boundaries)))))
    outs = pool_map(day_job, [(d, rnd.randrange(1 << 30), 5 if quick else 15) for d in days])
    cases = [o[0] for o in outs]
    for c in cases:
        c.setdefault("reads", {"k": "reads", "day": 0, "iso": c["id"], "items": []})
    tf, of = chk.work / "complete.json", chk.work / "complete.out.json"
    # several TLC runs in parallel
    chunks = [cases[i::8] for i in range(8)]
    jobs = []
    for k, ch in enumerate(chunks):
        if ch:
            t = chk.work / f"complete_{k}.json"
            tlc.write_json(t, ch)
            jobs.append((str(t), str(chk.work / f"complete_{k}.out.json"), str(chk.work)))
    res = pool_map(_judge_one, jobs)
    verdicts = {}
    for o, distinct in res:
        chk.cov["states"] = chk.cov.get("states", 0) + distinct
        chk.cov["transitions"] = chk.cov.get("transitions", 0) + distinct
        for v in o:
            verdicts[v["case"]] = v
    chk.cov["traces_validated_against_impl"] += len(cases)
    # judge the static reads with Timeline.tla
    import c07

    raw_file = chk.work / "raw.json"
    tlc.write_json(raw_file, {"groups": c07.export_raw(), "impls": []})
    revs = [c["reads"] for c in cases]
    rbad, rstats, _m = c07.judge(chk, raw_file, revs, "reads")
    nreads = sum(len(e["items"]) for e in revs)
    chk.notes["static_parameter_reads_checked"] = nreads
    # a static miss is a CANDIDATE (the read may sit on a branch that no data can take at that date); it becomes a
    # violation only with a dynamic witness: the rule itself, called on drawn argument rows, raises KeyError for that key
    cands = []
    for idx, clause, names in rbad:
        for nm in names:
            cands.append((revs[idx]["iso"], nm))
    chk.notes["static_read_candidates"] = len(cands)
    chk.notes["static_read_candidate_samples"] = sorted({nm for _, nm in cands})[:12]
    for d_, nm, err in pool_map(_confirm_read, sorted(set(cands))):
        if err:
            rule = nm.split(":")[0]
            chk.violation(f"C08|raised|KeyError|rule={rule}|half={d_[:4]}H{1 if d_[5:7] <= '06' else 2}|static-read={nm}|date={d_}", f"rule {rule} (in the dependency graph of the default targets at {d_}) reads parameter {nm.split(':')[1]} which does not exist that day: {err}", {"date": d_, "read": nm, "witness": err})
    nruns = 0
    for (case, runs_), d in zip(outs, days):
        v = verdicts[d]
        chk.distinct(d)
        for clause in ("missing_targets", "undocumented_leaves", "cycle", "rounding_without_spec"):
            for n in sorted(v[clause]):
                chk.violation(f"C08|{clause}|node={n}|date={d}", f"{clause.replace('_', ' ')}: {n} in the dependency graph of the default targets at {d}", {"date": d, "node": n, "clause": clause})
        for r in runs_:
            nruns += 1
            if not r["ok"]:
                chk.violation(f"C08|raised|{r['etype']}|rule={r['rule']}|half={d[:4]}H{1 if d[5:7] <= '06' else 2}|date={d}", f"default targets not computable at {d}: {r['error']} (rule {r['rule']})", {"date": d, "persons": r["persons"], "error": r["error"], "rule": r["rule"]})
    chk.count(nruns + len(cases))
    v0 = verdicts[days[-1]]
    chk.sample({"date": days[-1], "dag_nodes": v0["dag_nodes"], "leaves": v0["leaves"]})
    chk.sample({"days": days[:10]})
    chk.notes.update({"classes": len(boundaries), "days_checked": len(days), "population_runs": nruns})
    chk.cov["rule"] = (
        "days = every change day >= 2015-01-01 (parameter entry, rounding entry, rule start, rule end + 1) and its eve (quick: the last day of EVERY interval plus a seeded 8 first days; thorough: first and last day of every interval); per day the derived dependency graph of the default targets (TLC) and 4 (thorough 12) "
        "branch-diverse populations computed through the public API; distinct_nontrivial = distinct days"
    )
    chk.assumptions += ["one day per interval between change days represents the interval (C07 establishes that the environment is constant in between)", "parameter reads are exercised dynamically (exceptions), not enumerated statically"]
    return chk.finish()


def _judge_one(job):
    tf, of, work = job
    r = tlc.run("Trace_Complete", "Trace_Complete.cfg", workdir=work, env={"TRACE_FILE": tf, "OUT_FILE": of}, timeout=3000)
    if r.violated:
        raise tlc.TLCFailure(f"Trace_Complete: {r.violated}\n{r.out[-1500:]}")
    return tlc.read_json(of), r.distinct


def replay(path):
    case = json.load(open(path))["case"]
    if "persons" in case:
        df = gs.build_population(case["persons"], case["date"])
        try:
            gs.compute(df, case["date"], targets=gs.default_targets())
            return 0
        except Exception as e:  # noqa: BLE001
            print(type(e).__name__, str(e)[:200])
            return 1
    return run("quick")
