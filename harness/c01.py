"""C01 — results do not depend on the order of rows / index labels.

B  (registry) every TLC-enumerated pointer structure x every row order x 2 labellings through
   the id functions; TLC (Trace_Households, clause orderdep) compares the induced partitions.
C  (API) dressed populations x {identity, every rotation, random permutations} x index
   labellings, all nodes requested; TLC (Trace_Perm) compares per person.
"""
from __future__ import annotations

import json
import random

import numpy as np
import pandas as pd

import enc
import gs
import popgen
import tables
import tlc
import units
from common import Check, pool_map
from c12 import collect, short

LEVEL = "model_checking"
DATES_ALWAYS = ["2023-01-01"]
DATES_POOL = ["2015-01-01", "2016-01-01", "2017-07-01", "2018-01-01", "2019-07-01", "2020-01-01", "2021-01-01", "2022-01-01", "2022-10-01", "2024-01-01", "2024-07-01", "2025-01-01"]


def permutations_for(n, rnd, k):
    ident = list(range(n))
    out = []
    for s in range(1, n):
        out.append(ident[s:] + ident[:s])  # every person is first once
    out.append(ident[::-1])
    for _ in range(k):
        p = ident[:]
        rnd.shuffle(p)
        out.append(p)
    seen = {tuple(ident)}
    uniq = []
    for p in out:
        if tuple(p) not in seen:
            seen.add(tuple(p))
            uniq.append(p)
    return uniq


def index_for(kind, n, rnd):
    if kind == "range":
        return None
    if kind == "ints":
        v = rnd.sample(range(1000), n)
        return pd.Index(v)
    return pd.Index([f"r{rnd.randrange(10**6)}_{i}" for i in range(n)])


def api_job(job):
    date, structs, seed, nperm, work, tid = job
    rnd = random.Random(seed)
    P = popgen.compose(structs, date, rnd, sparse=rnd.random() < 0.5)
    if tid % 2 == 1:
        # survey-style household numbers (far larger than the number of rows): together with the permutations below the
        # members of a household are not adjacent
        relabel = {}
        for p in P:
            relabel.setdefault(p["hh_id"], 4711 + 1309 * len(relabel))
        for p in P:
            p["hh_id"] = relabel[p["hh_id"]]
    df = gs.build_population(P, date)
    n = len(df)
    pool = enc.Pool()
    events = []
    info = {"tid": tid, "date": date, "n": n, "structs": [short(s) for s in structs], "runs": 0, "raised": []}
    try:
        base, excluded = gs.compute_all(df, date, rounding=False)
    except Exception as e:  # noqa: BLE001
        info["base_error"] = f"{type(e).__name__}: {str(e)[:200]}"
        return info, None
    _, args = gs.all_nodes_for(date, list(df))
    cols = [c for c in base.columns if not tables.is_derived_time_variant(c, args.get(c, [])) or c in gs.default_targets()]
    info["ncols"] = len(cols)
    info["excluded"] = sorted(excluded)[:20]
    events.append(tables.table_event(pool, base, df["p_id"].tolist(), cols, tid=tid, run=0, colnames=cols))
    runs = []
    for k, perm in enumerate(permutations_for(n, rnd, nperm), start=1):
        ik = ["range", "ints", "strs"][k % 3]
        runs.append((perm, ik))
    for k, (perm, ik) in enumerate(runs, start=1):
        d2 = df.iloc[perm].reset_index(drop=True)
        idx = index_for(ik, n, rnd)
        if idx is not None:
            d2.index = idx
        try:
            r2 = gs.compute(d2, date, targets=cols, rounding=False)
        except Exception as e:  # noqa: BLE001
            info["raised"].append({"run": k, "perm": perm, "index": ik, "error": f"{type(e).__name__}: {str(e)[:200]}"})
            continue
        if list(r2.columns) != list(base[cols].columns) and set(r2.columns) != set(cols):
            info["raised"].append({"run": k, "perm": perm, "error": "columns differ"})
            continue
        events.append(tables.table_event(pool, r2, d2["p_id"].tolist(), cols, tid=tid, run=k))
        info.setdefault("perms", {})[k] = {"perm": perm, "index": ik}
        if k == len(runs):
            # debug mode returns the inputs next to the results: the rows are identified by the p_id column the RESULT shows
            try:
                r3 = gs.compute(d2, date, targets=cols, rounding=False, debug=True)
                pid3 = r3["p_id"].tolist()
                if len(r3) != n or any(x != x for x in pid3) or sorted(int(x) for x in pid3) != sorted(df["p_id"].tolist()):
                    info["raised"].append({"run": k + 100, "perm": perm, "index": ik, "error": f"debug=True: the result has {len(r3)} rows for {n} input rows or its p_id column is not the input's"})
                else:
                    events.append(tables.table_event(pool, r3, [int(x) for x in pid3], cols, tid=tid, run=k + 100))
                    info.setdefault("perms", {})[k + 100] = {"perm": perm, "index": ik, "debug": True}
            except Exception as e:  # noqa: BLE001
                info["raised"].append({"run": k + 100, "perm": perm, "index": ik, "error": f"debug=True: {type(e).__name__}: {str(e)[:160]}"})
    info["runs"] = len(events) - 1
    tf = f"{work}/perm_{tid}.json"
    of = f"{work}/perm_{tid}.out.json"
    tlc.write_json(tf, {"pool": pool.items, "events": events})
    r = tlc.run("Trace_Perm", "Trace_Perm.cfg", workdir=work, env={"TRACE_FILE": tf, "OUT_FILE": of}, timeout=1800)
    if r.violated:
        raise tlc.TLCFailure(f"Trace_Perm: {r.violated}\n{r.out[-1500:]}")
    out = tlc.read_json(of)
    info["bad"] = out["bad"]
    info["compared"] = out["compared"]
    info["tlc_states"] = r.distinct
    info["persons"] = P
    return info, None


def root_causes(date, data_cols, badcols):
    """First nodes in topological order whose parents are all fine."""
    ok, args = gs.all_nodes_for(date, data_cols)
    bad = set(badcols)
    roots = [c for c in badcols if not any(a in bad for a in args.get(c, []))]
    return roots or sorted(bad)[:3]


def run(tier):
    chk = Check("C01", tier, LEVEL)
    rnd = random.Random(chk.seed * 104729 + 1)
    quick = tier == "quick"
    # ---------------- B: registry, all orders
    plans = [
        ("fam3", dict(maxn=3, ages=[24, 25], nhh=2, family=True, marriage=False)),
        ("mar3", dict(maxn=3, ages=[40], nhh=2, family=False, marriage=True)),
        ("fam4", dict(maxn=4, ages=[24, 25], nhh=2, family=True, marriage=False)),
    ]
    events = []
    fam_structs = []
    for name, kw in plans:
        res, pops = units.enumerate_structures(chk.work, name, **kw)
        if res.violated:
            raise RuntimeError(f"MC_Households invariant failed: {res.violated}")
        chk.add_mc(res, f"MC_Households[{name}]")
        if name == "fam4":
            pops = [p for p in pops if len(p) == 4]
            if quick:
                pops = rnd.sample(pops, min(1200, len(pops)))
        fam_structs += [p for p in pops if 2 <= len(p) <= 4]
        events += collect(chk, pops, rnd, None, name)
    verdicts, st = units.judge(events, chk.work, "reg")
    chk.cov["traces_validated_against_impl"] += st["judged"]
    by = {}
    for idx, clause in verdicts:
        if clause == "generator":
            raise RuntimeError("generator produced ill-formed population")
        if clause.startswith("orderdep:") or clause == "raised":
            by.setdefault(clause, []).append(idx)
    fg_dep = set(by.get("orderdep:fg", []))
    for clause, idxs in sorted(by.items()):
        # classify by ambiguity class so that known findings stay specific
        groups = {}
        if clause == "orderdep:bg":  # bg_id is computed from fg_id: report the root cause only
            idxs = [i for i in idxs if i not in fg_dep]
        for i in idxs:
            groups.setdefault(_ambiguity_class(events[i]["pop"]), []).append(i)
        for cls, ii in sorted(groups.items()):
            ii.sort(key=lambda i: (len(events[i]["pop"]), short(events[i]["pop"])))
            ev = events[ii[0]]
            chk.violation(
                f"C01|{clause}|class={cls}|via=registry",
                f"{len(ii)} structure(s) give different partitions for different row orders; smallest: {short(ev['pop'])}",
                {"clause": clause, "pop": ev["pop"], "obs": ev["obs"], "n_structures": len(ii)},
            )
    for e in events:
        if len(e["pop"]) >= 2:
            chk.distinct("s:" + short(e["pop"]))
    # ---------------- C: API level, all nodes
    dates = list(DATES_ALWAYS) + rnd.sample(DATES_POOL, 2 if quick else len(DATES_POOL))
    npop = 36 if quick else 400
    canon = list(popgen.CANON.values())
    valid_fam = [p for p in fam_structs if _plain(p) and _ambiguity_class(p) == "unambiguous"]
    jobs = []
    for t in range(npop):
        date = dates[t % len(dates)]
        k = rnd.choice([1, 1, 2, 3])
        structs = []
        for _ in range(k):
            structs.append(rnd.choice(canon) if rnd.random() < 0.6 or not valid_fam else rnd.choice(valid_fam))
        if sum(len(s) for s in structs) > 9:
            structs = structs[:2]
        jobs.append((date, structs, rnd.randrange(1 << 30), 2 if quick else 4, str(chk.work), t))
    jobs.sort(key=lambda j: j[0])
    outs = pool_map(api_job, jobs)
    nontrivial = 0
    for info, _ in outs:
        if "base_error" in info:
            chk.notes.setdefault("base_errors", []).append({k: info[k] for k in ("date", "structs", "base_error")})
            continue
        chk.count(info["runs"] + 1)
        chk.cov["traces_validated_against_impl"] += 1
        chk.notes["trace_tlc_states"] = chk.notes.get("trace_tlc_states", 0) + info["tlc_states"]
        if info["n"] >= 2 and info["runs"] >= 1:
            nontrivial += 1
            chk.distinct(f"p:{info['date']}:{'+'.join(info['structs'])}:{info['tid']}")
        for r in info["raised"]:
            chk.violation(
                f"C01|raised|date={info['date']}|{r['error'][:60]}",
                "permuted run raised although the base order computed",
                {"date": info["date"], "persons": info["persons"], "perm": r.get("perm"), "index": r.get("index"), "error": r["error"]},
            )
        if info["bad"]:
            data_cols = list(gs.input_types())
            per_run = {}
            for b in info["bad"]:
                per_run.setdefault(b["run"], []).append(b)
            allbad = sorted({b["col"] for b in info["bad"]})
            roots = root_causes(info["date"], data_cols, allbad) if "*" not in allbad else ["*"]
            for c in roots:
                kinds = sorted({b["kind"] for b in info["bad"] if b["col"] == c})
                run_k = min(b["run"] for b in info["bad"] if b["col"] == c)
                chk.violation(
                    f"C01|{kinds[0]}|node={c}",
                    f"value of {c} changes under a row permutation / index relabelling (date {info['date']}, {len(allbad)} columns affected downstream)",
                    {"date": info["date"], "persons": info["persons"], "perm": info.get("perms", {}).get(run_k), "node": c, "affected": allbad[:40]},
                )
        chk.sample({"date": info["date"], "structures": info["structs"], "persons": info["n"], "runs": info["runs"], "columns": info.get("ncols")})
    if nontrivial == 0:
        raise RuntimeError("vacuous: no multi-person population permuted")
    chk.cov["rule"] = (
        "registry: all MC_Households structures x all row orders x 2 labellings (distinct = structures with >=2 persons); "
        "API: dressed populations (1-3 households) x {rotations so that every person is first once, reverse, random} x index kinds "
        "{range, ints, strings}, all non-time-variant nodes + default targets requested, rounding off; distinct = populations with >=2 persons and >=1 permuted run"
    )
    chk.assumptions += ["float sums may associate differently: 1e-9 relative tolerance, bit-identical otherwise", "rounding disabled in the API runs (grid-boundary flips are out of scope here, see C10)"]
    chk.notes["dates"] = dates
    return chk.finish()


def _plain(pop):
    import itertools

    # keep structures that the trace spec would call unambiguous (cheap syntactic pre-filter; TLC re-checks in C12)
    return all(not (p["eb"] and not p["e1"]) for p in pop)


def _ambiguity_class(pop):
    """Name of the structural class (for specific known-finding signatures)."""
    n = len(pop)
    kids = {i: [c for c in range(1, n + 1) if i in (pop[c - 1]["e1"], pop[c - 1]["e2"])] for i in range(1, n + 1)}

    def belongs(c, q):
        return q in (pop[c - 1]["e1"], pop[c - 1]["e2"]) and pop[c - 1]["hh"] == pop[q - 1]["hh"] and pop[c - 1]["age"] < 25 and not kids[c]

    for c in range(1, n + 1):
        bq = [q for q in (pop[c - 1]["e1"], pop[c - 1]["e2"]) if q and belongs(c, q)]
        if len(bq) == 2 and pop[bq[0] - 1]["partner"] != bq[1]:
            return "child-of-two-coresident-nonpartner-parents"
        if bq and pop[c - 1]["partner"]:
            return "dependent-child-with-partner"
    for c in range(1, n + 1):
        for q in (pop[c - 1]["e1"], pop[c - 1]["e2"]):
            if q and c in (pop[q - 1]["e1"], pop[q - 1]["e2"]):
                return "parent-cycle"
    return "unambiguous"


def replay(path):
    case = json.load(open(path))["case"]
    chk = Check("C01", "quick", LEVEL)
    if "pop" in case:
        ev, cnt = units.observe_registry_all((case["pop"], 1, None))
        verdicts, st = units.judge([ev], chk.work, "replay")
        print("verdicts:", sorted({c for _, c in verdicts}))
        return 1 if any(c.startswith("orderdep") or c == "raised" for _, c in verdicts) else 0
    date = case["date"]
    df = gs.build_population(case["persons"], date)
    base, _ = gs.compute_all(df, date, rounding=False)
    perm = case["perm"]["perm"] if case.get("perm") else list(range(len(df)))[::-1]
    d2 = df.iloc[perm].reset_index(drop=True)
    cols = list(base.columns)
    r2 = gs.compute(d2, date, targets=cols, rounding=False)
    pool = enc.Pool()
    evs = [tables.table_event(pool, base, df["p_id"].tolist(), cols, tid=0, run=0, colnames=cols), tables.table_event(pool, r2, d2["p_id"].tolist(), cols, tid=0, run=1)]
    tf, of = f"{chk.work}/r.json", f"{chk.work}/r.out.json"
    tlc.write_json(tf, {"pool": pool.items, "events": evs})
    tlc.run("Trace_Perm", "Trace_Perm.cfg", workdir=chk.work, env={"TRACE_FILE": tf, "OUT_FILE": of})
    out = tlc.read_json(of)
    print("bad columns:", sorted({b["col"] for b in out["bad"]})[:30])
    return 1 if out["bad"] else 0
