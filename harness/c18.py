"""C18 — statutory schedules are well-formed and evaluated exactly.

A/C  one trace walks every dated version of every piecewise_* parameter: the law's schedule
     (raw entry in force, resolved by the loader that C07 binds to Timeline.tla) and the arrays
     the implementation parsed; TLC (Trace_Sched over Schedules.tla) checks WellFormed, the
     parser's obligations (thresholds, rates, progression factor, generated intercepts) and,
     from the coefficients alone, the shape lemmas of the income-tax schedule and the
     solidarity surcharge -- for all real arguments.
B    for every version: evaluation at every threshold, threshold +- 1 ulp, mid-points and
     +-1e7 by the real piecewise_polynomial (and the real tariff helpers); TLC recomputes the
     exact value and compares to 1e-9 relative.
"""
from __future__ import annotations

import datetime
import json
import math
import random

import numpy as np

import gs
import tlc
from common import Check, pool_map
from enc import dec

LEVEL = "model_checking"
SHAPES = {
    "eink_st_tarif": ["continuous", "nondecreasing", "convex", "toprate", "zero-allowance"],
    "soli_st": ["continuous", "nondecreasing", "below-nominal"],
}


def ext(v, has=True):
    if not has or v is None:
        return {"has": False, "inf": 0, "v": dec(0)}
    if isinstance(v, str):
        v = float(v)
    if isinstance(v, float) and math.isinf(v):
        return {"has": True, "inf": 1 if v > 0 else -1, "v": dec(0)}
    return {"has": True, "inf": 0, "v": dec(v)}


def raw_schedule(rawparam):
    keys = sorted(k for k in rawparam if isinstance(k, int))
    ivs = []
    for k in keys:
        iv = rawparam[k]
        r1 = iv.get("rate_linear", iv.get("rate"))
        ivs.append({
            "key": k,
            "lo": ext(iv.get("lower_threshold"), "lower_threshold" in iv),
            "hi": ext(iv.get("upper_threshold"), "upper_threshold" in iv),
            "r1": ext(r1, r1 is not None),
            "r2": ext(iv.get("rate_quadratic"), "rate_quadratic" in iv),
            "r3": ext(iv.get("rate_cubic"), "rate_cubic" in iv),
            "ic": ext(iv.get("intercept_at_lower_threshold"), "intercept_at_lower_threshold" in iv),
        })
    typ = rawparam["type"].split("_")[1]
    return {"ivs": ivs, "deg": {"linear": 1, "quadratic": 2, "cubic": 3}[typ], "prog": bool(rawparam.get("progressionsfaktor", False))}


def parsed_schedule(p):
    t = [ext(float(x)) for x in p["thresholds"]]
    rates = np.atleast_2d(np.asarray(p["rates"], dtype=float))
    return {"t": t, "r": [[dec(float(x)) for x in row] for row in rates], "ic": [dec(float(x)) for x in p["intercepts_at_lower_thresholds"]]}


def points(p, rnd):
    th = [float(x) for x in p["thresholds"] if np.isfinite(x)]
    xs = []
    for t in th:
        xs += [t, float(np.nextafter(t, -np.inf)), float(np.nextafter(t, np.inf)), t - 0.01, t + 0.01]
    for a, b in zip(th, th[1:]):
        xs.append((a + b) / 2)
    lo, hi = (min(th), max(th)) if th else (0.0, 1.0)
    xs += [-1e7, 1e7, lo - 1.0, hi + 1.0, hi * 2 + 3.3, 0.0]
    xs += [rnd.uniform(lo - 10, hi * 1.5 + 10) for _ in range(6)]
    return xs


def day_job(job):
    iso, seed, full_env = job[:3]
    neighbours = job[3] if len(job) > 3 else ()
    from _gettsim.config import INTERNAL_PARAMS_GROUPS
    from _gettsim.piecewise_functions import piecewise_polynomial
    from _gettsim.policy_environment import _load_parameter_group_from_yaml, _parse_piecewise_parameters

    rnd = random.Random(seed)
    d = datetime.date.fromisoformat(iso)
    events, meta = [], []
    for g in INTERNAL_PARAMS_GROUPS:
        raw = _load_parameter_group_from_yaml(d, g)
        pw = {k: v for k, v in raw.items() if isinstance(v, dict) and str(v.get("type", "")).startswith("piecewise")}
        if not pw:
            continue
        import copy

        # the parser is a function of the entry it is given: the schedules in force on the neighbouring change days are parsed
        # first in this process (a parser that remembers an earlier schedule then shows here)
        for niso in neighbours:
            try:
                nraw = _load_parameter_group_from_yaml(datetime.date.fromisoformat(niso), g)
                _parse_piecewise_parameters(copy.deepcopy(nraw))
            except Exception:  # noqa: BLE001
                pass
        try:
            parsed = _parse_piecewise_parameters(copy.deepcopy(raw))
        except Exception as e:  # noqa: BLE001
            for k in pw:
                events.append({"k": "sched", "param": f"{g}.{k}", "day": d.toordinal(), "raw": raw_schedule(pw[k]), "parsed": {"t": [], "r": [], "ic": []}, "shape": []})
                meta.append({"param": f"{g}.{k}", "date": iso, "parse_error": f"{type(e).__name__}: {str(e)[:120]}"})
            continue
        # the two parsing helpers are functions of the specification they are given: the SAME specification object of a
        # parameter is parsed (not a copy), then edited in place (every linear rate x 1.1, what a reform script does) and parsed
        # again; the second result must be the schedule of the edited specification (progression factors, intercepts recomputed)
        from _gettsim.piecewise_functions import get_piecewise_parameters
        from _gettsim.policy_environment import add_progressionsfaktor

        def parse_spec(spec, name):
            sp = add_progressionsfaktor(spec, name) if spec.get("progressionsfaktor") else spec
            return get_piecewise_parameters(sp, name, func_type=spec["type"].split("_")[1])

        for k_, rp_ in pw.items():
            try:
                spec = copy.deepcopy(rp_)
                parse_spec(spec, k_)
                for key_, iv_ in spec.items():
                    if isinstance(key_, int) and isinstance(iv_, dict) and isinstance(iv_.get("rate_linear"), (int, float)) and not isinstance(iv_.get("rate_linear"), bool):
                        iv_["rate_linear"] = iv_["rate_linear"] * 1.1
                law2 = copy.deepcopy(spec)
                for key_, iv_ in law2.items():          # the law is the edited specification as the USER wrote it
                    if isinstance(key_, int) and isinstance(iv_, dict):
                        for extra_ in set(iv_) - set(rp_[key_]):
                            del iv_[extra_]
                p2 = parse_spec(spec, k_)
                events.append({"k": "sched", "param": f"{g}.{k_}", "day": d.toordinal(), "raw": raw_schedule(law2), "parsed": parsed_schedule(p2), "shape": []})
                meta.append({"param": f"{g}.{k_}", "date": iso, "what": "second parse of the same specification object after an in-place edit"})
            except Exception as e:  # noqa: BLE001
                events.append({"k": "sched", "param": f"{g}.{k_}", "day": d.toordinal(), "raw": raw_schedule(rp_), "parsed": {"t": [], "r": [], "ic": []}, "shape": []})
                meta.append({"param": f"{g}.{k_}", "date": iso, "parse_error": f"second parse: {type(e).__name__}: {str(e)[:100]}"})
        for k, rp in pw.items():
            p = parsed[k]
            events.append({"k": "sched", "param": f"{g}.{k}", "day": d.toordinal(), "raw": raw_schedule(rp), "parsed": parsed_schedule(p), "shape": SHAPES.get(k, [])})
            meta.append({"param": f"{g}.{k}", "date": iso})
            xs = points(p, rnd)
            ys = [float(piecewise_polynomial(np.float64(x), thresholds=p["thresholds"], rates=p["rates"], intercepts_at_lower_thresholds=p["intercepts_at_lower_thresholds"])) for x in xs]
            events.append({"k": "eval", "param": f"{g}.{k}", "xs": [dec(x) for x in xs], "ys": [dec(y) for y in ys]})
            meta.append({"param": f"{g}.{k}", "date": iso, "what": "piecewise_polynomial", "xs": xs[:6]})
            for m_ in (0.75, 0.4):
                ysm = [float(piecewise_polynomial(np.float64(x), thresholds=p["thresholds"], rates=p["rates"], intercepts_at_lower_thresholds=p["intercepts_at_lower_thresholds"], rates_multiplier=m_)) for x in xs]
                events.append({"k": "evalm", "param": f"{g}.{k}", "m": dec(m_), "xs": [dec(x) for x in xs], "ys": [dec(y) for y in ysm]})
                meta.append({"param": f"{g}.{k}", "date": iso, "what": f"piecewise_polynomial rates_multiplier={m_}", "xs": xs[:6]})
            # values derived from a schedule at set-up time (policy_environment._parse_einführungsfaktor…,
            # _parse_vorsorgepauschale_rentenv_anteil): the environment must hold Eval(schedule, year)
            if full_env and d.year >= 2005 and g == "eink_st_abzuege" and k in ("einführungsfaktor", "vorsorgepauschale_rentenv_anteil"):
                envp = gs.env(iso)[0]["eink_st_abzuege"]
                key = "einführungsfaktor_vorsorgeaufw_alter_ab_2005" if k == "einführungsfaktor" else "vorsorgepauschale_rentenv_anteil"
                val = envp.get(key)
                if isinstance(val, (int, float, np.floating)):
                    events.append({"k": "eval", "param": f"{g}.{k}", "xs": [dec(float(d.year))], "ys": [dec(float(val))]})
                    meta.append({"param": f"{g}.{k}", "date": iso, "what": f"set-up derived value {key}"})
            if k == "eink_st_tarif":
                from _gettsim.taxes.eink_st import _eink_st_tarif

                ys2 = [float(_eink_st_tarif(np.float64(x), {"eink_st_tarif": p})) for x in xs]
                events.append({"k": "eval", "param": f"{g}.{k}", "xs": [dec(x) for x in xs], "ys": [dec(y) for y in ys2]})
                meta.append({"param": f"{g}.{k}", "date": iso, "what": "_eink_st_tarif"})
    return events, meta


def change_days(quick, rnd):
    import c07

    raw = c07.export_raw()
    days = set()
    for g in raw:
        for p in g["params"]:
            if any(t["key"] == "stype" and "piecewise" in json.dumps(t["flat"]) for t in p["trans"]):
                days |= {e["day"] for e in p["entries"]}
    days = sorted(d for d in days if d >= datetime.date(1980, 1, 1).toordinal())
    isos = [datetime.date.fromordinal(d).isoformat() for d in days]
    return isos


def run(tier):
    chk = Check("C18", tier, LEVEL)
    rnd = random.Random(chk.seed * 65537 + 18)
    quick = tier == "quick"
    isos = change_days(quick, rnd)
    extra = [datetime.date.fromordinal(datetime.date.fromisoformat(i).toordinal() - 1).isoformat() for i in isos]
    days = sorted(set(isos) | ({"2023-06-15", "2024-12-31"} if quick else set(extra)))
    if quick and len(days) > 48:
        keep = set(days[-30:]) | set(rnd.sample(days[:-30], 18))
        days = sorted(keep)
    full = set(rnd.sample(days, min(len(days), 6 if quick else 40))) | {d for d in days if d.endswith('-01-01') and d >= '2021-01-01'}
    alld = change_days(False, rnd)
    def nb(d):
        i = alld.index(d) if d in alld else -1
        return tuple(x for x in ((alld[i - 1] if i > 0 else None), (alld[i + 1] if 0 <= i < len(alld) - 1 else None)) if x)

    outs = pool_map(day_job, [(d, rnd.randrange(1 << 30), d in full, nb(d)) for d in days])
    traces = []
    for ev, meta in outs:
        if ev:
            traces.append((ev, meta))
    # judge: one TLC run per chunk of days
    jobs = []
    for k, (ev, meta) in enumerate(traces):
        tf = chk.work / f"sched_{k}.json"
        tlc.write_json(tf, ev)
        jobs.append((str(tf), str(chk.work / f"sched_{k}.out.json"), str(chk.work)))
    res = pool_map(_judge_one, jobs)
    nsched = neval = 0
    seen = set()
    for (ev, meta), (o, distinct) in zip(traces, res):
        chk.notes["trace_tlc_states"] = chk.notes.get("trace_tlc_states", 0) + distinct
        nsched += sum(1 for e in ev if e["k"] == "sched")
        neval += sum(len(e["xs"]) for e in ev if e["k"] == "eval")
        for b in o["bad"]:
            m = meta[b["e"] - 1]
            sig = f"C18|{b['c']}|param={m['param']}" + (f"|via={m['what']}" if "what" in m else "")
            key = (sig,)
            if key in seen:
                continue
            seen.add(key)
            chk.violation(sig, f"{m['param']} in force on {m['date']}: {b['c']}" + (f" ({m['parse_error']})" if "parse_error" in m else ""), m)
        for m in meta:
            if "what" not in m:
                chk.distinct((m["param"], m["date"]))
    chk.count(nsched + neval)
    chk.cov["traces_validated_against_impl"] += len(traces)
    chk.cov["states"] = chk.notes.get("trace_tlc_states", 0)
    chk.cov["transitions"] = chk.notes.get("trace_tlc_states", 0)
    chk.notes.update({"days": len(days), "schedule_versions_checked": nsched, "points_evaluated": neval})
    chk.sample({"day": days[-1], "schedules": sorted({m["param"] for m in traces[-1][1]})})
    chk.sample({"points": traces[-1][1][1].get("xs")})
    chk.cov["rule"] = (
        "days = every day on which any piecewise_* parameter changes (quick: the latest 30 + seeded 18 earlier; thorough: all and their eves); per day every piecewise parameter in force: raw schedule vs parsed arrays, shape lemmas for eink_st_tarif and soli_st, "
        "evaluation at every threshold, +-1 ulp, +-0.01, mid-points, +-1e7 and seeded points; distinct_nontrivial = distinct (parameter, day) versions"
    )
    chk.assumptions += ["the raw schedule in force is taken from the loader that C07 validates against Timeline.tla", "parser obligations to 1e-12 relative, evaluation to 1e-9 relative", "shape lemmas are stated for schedules of degree <= 2"]
    return chk.finish()


def _judge_one(job):
    tf, of, work = job
    r = tlc.run("Trace_Sched", "Trace_Sched.cfg", workdir=work, env={"TRACE_FILE": tf, "OUT_FILE": of}, timeout=3000)
    if r.violated:
        raise tlc.TLCFailure(f"Trace_Sched: {r.violated}\n{r.out[-1500:]}")
    return tlc.read_json(of), r.distinct


def replay(path):
    d = json.load(open(path))
    print(json.dumps(d["case"], ensure_ascii=False)[:600])
    return run("quick")
