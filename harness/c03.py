"""C03 — each column value equals the scalar rule applied to that row's inputs; the dtype
follows the declared result type and never depends on the data.

A  MC_Rows: which sequences of result kinds a first-row-typed evaluator corrupts (seeds).
C  every rule of the real rule base (all validity periods): argument rows are drawn, the raw
   scalar rule is applied to every row alone (the oracle the property names), the production
   column is obtained through the public API (all arguments supplied as data, the rule as the
   only target, rounding off) for two row orders -- narrowest result first and widest first --
   and TLC (Trace_Rows) validates cells, dtype vs declaration and dtype independence of data.
"""
from __future__ import annotations

import inspect
import json
import random

import numpy as np
import pandas as pd

import gs
import tlc
import vec
from common import Check, pool_map

LEVEL = "exploration"
KIND = {float: "f", int: "i", bool: "b"}


def result_rank(v):
    if isinstance(v, (bool, np.bool_)):
        return 0
    if isinstance(v, (int, np.integer)):
        return 1
    if isinstance(v, (float, np.floating)):
        return 2 if float(v).is_integer() else 3
    return 4


def rule_job(job):
    dagname, pyname, date, seed, nrows = job
    rnd = random.Random(seed)
    params, functions = gs.env(date)
    f = functions.get(dagname)
    meta = {"fn": pyname, "node": dagname, "date": date}
    if f is None or getattr(f, "__info__", {}).get("skip_vectorization"):
        return meta, [], {"skipped": "not a scalar rule"}
    types = gs.input_types()
    ann = getattr(f, "__annotations__", {})
    names = list(inspect.signature(f).parameters)
    dargs = [a for a in names if not a.endswith("_params")]
    pargs = {a: params.get(a[:-7], {}) for a in names if a.endswith("_params")}
    if not dargs:
        return meta, [], {"skipped": "parameters only"}

    def declared_of(arg):
        if arg in types:
            return types[arg]
        g = functions.get(arg)
        if g is not None and "return" in getattr(g, "__annotations__", {}):
            r = g.__annotations__["return"]
            if r in (float, int, bool):
                return r
        return ann.get(arg, float)

    rows = []
    tries = 0
    while len(rows) < nrows and tries < nrows * 8:
        tries += 1
        row = {}
        for a in dargs:
            t = declared_of(a)
            if a.endswith("_id") or a == "p_id":
                row[a] = len(rows)
            else:
                row[a] = vec.draw(a, t, rnd)
        try:
            out = f(**row, **pargs)
        except Exception:  # noqa: BLE001
            continue
        if not isinstance(out, (bool, int, float, np.generic)) or isinstance(out, (np.datetime64,)):
            return meta, [], {"skipped": f"result type {type(out).__name__}"}
        rows.append((row, out))
    if len(rows) < 2:
        return meta, [], {"skipped": "scalar rule raised on all drawn rows"}
    declared = KIND.get(ann.get("return"), "?")
    events = []
    stats = {"rows": len(rows), "kinds": sorted({result_rank(o) for _, o in rows})}
    for order in ("narrow-first", "wide-first"):
        rs = sorted(rows, key=lambda ro: result_rank(ro[1]), reverse=(order == "wide-first"))
        df = pd.DataFrame({"p_id": np.arange(len(rs), dtype=np.int64), "hh_id": np.arange(len(rs), dtype=np.int64)})
        for a in dargs:
            if a in ("p_id", "hh_id"):
                continue
            col = [r[a] for r, _ in rs]
            df[a] = pd.Series(col)
        # the oracle: the raw rule on each row's (converted) python scalars
        scal = []
        for k in range(len(rs)):
            row = {a: (df[a].iloc[k].item() if hasattr(df[a].iloc[k], "item") else df[a].iloc[k]) for a in dargs}
            scal.append(f(**row, **pargs))
        try:
            res = gs.compute(df, date, targets=[dagname], rounding=False)
        except Exception as e:  # noqa: BLE001
            stats.setdefault("api_errors", []).append(f"{order}:{type(e).__name__}:{str(e)[:100]}")
            continue
        colv = res[dagname].to_numpy()
        events.append({"fn": f"{dagname}@{pyname}", "declared": declared, "order": order, "scalar": [vec.canon(x) for x in scal], "column": [vec.canon(x) for x in colv.tolist()], "dtype": {"f": "f", "i": "i", "u": "i", "b": "b"}.get(colv.dtype.kind, colv.dtype.kind)})
    return meta, events, stats


def pop_job(job):
    date, seed, tid = job
    import pandas as pd

    import popgen
    import runs

    rnd = random.Random(seed)
    names = list(popgen.CANON)
    PA = popgen.compose([popgen.CANON[rnd.choice(names)] for _ in range(2)], date, rnd)
    PB = popgen.compose([popgen.CANON[rnd.choice(names)] for _ in range(3)], date, rnd)
    for p in PB:
        p["p_id"] += 500
        p["hh_id"] += 40
        for c in ("p_id_elternteil_1", "p_id_elternteil_2", "p_id_kindergeld_empf", "p_id_erziehgeld_empf", "p_id_ehepartner", "p_id_einstandspartner", "p_id_betreuungsk_träger"):
            if p.get(c, -1) >= 0:
                p[c] += 500
    A, B = gs.build_population(PA, date), gs.build_population(PB, date)
    nodes, _ = runs.nonderived_nodes(date, A)
    try:
        ra, _ = gs.compute_all(A, date, targets=nodes, rounding=False)
        cols = list(ra.columns)
        rb = gs.compute(pd.concat([B, A], ignore_index=True), date, targets=cols, rounding=False)
        rc = gs.compute(A.iloc[::-1].reset_index(drop=True), date, targets=cols, rounding=False)
        # the float inputs stored as float32 / float16-exact values: the dtype of every result follows its declared type,
        # not the storage width of an input
        A32 = A.copy()
        for c_ in A32.columns:
            if A32[c_].dtype == np.float64 and np.array_equal(A32[c_].to_numpy().astype(np.float32).astype(np.float64), A32[c_].to_numpy()):
                A32[c_] = A32[c_].astype(np.float32)
        rd = gs.compute(A32, date, targets=cols, rounding=False)
    except Exception:  # noqa: BLE001
        return []
    k = {"f": "f", "i": "i", "u": "i", "b": "b"}
    out = []
    for c in cols:
        for tag, r in (("A", ra), ("B+A", rb), ("reversed", rc), ("float32-inputs", rd)):
            out.append({"fn": f"{tid}:{c}", "declared": "?", "order": tag, "scalar": [], "column": [], "dtype": k.get(r[c].dtype.kind, r[c].dtype.kind), "date": date})
    return out


def run(tier):
    from _gettsim.functions_loader import load_internal_functions

    chk = Check("C03", tier, LEVEL)
    rnd = random.Random(chk.seed * 65537 + 3)
    quick = tier == "quick"
    r0 = tlc.run("MC_Rows", "MC_Rows.cfg", workdir=chk.work, workers=2, timeout=300)
    if r0.violated:
        chk.violation(f"C03|spec-theorem|{','.join(r0.violated)}", "Rows.tla theorem fails", {"out": r0.out[-1500:]})
    else:
        chk.add_mc(r0, "MC_Rows")
    w = tlc.run("MC_Rows", "MC_Rows_witness.cfg", workdir=chk.work, workers=1, timeout=300)
    if "NoCorruption" not in w.violated:
        raise RuntimeError("vacuous MC_Rows: no corrupting sequence exists")
    fs = load_internal_functions()
    jobs = []
    for pyname, f in sorted(fs.items()):
        info = getattr(f, "__info__", None) or {}
        dag = info.get("name_in_dag", pyname)
        jobs.append((dag, pyname, vec.pick_date(f), rnd.randrange(1 << 30), 24 if quick else 120))
    outs = pool_map(rule_job, jobs, chunksize=4)
    events, owner = [], []
    skipped = {}
    for meta, evs, stats in outs:
        if "skipped" in stats:
            skipped[stats["skipped"]] = skipped.get(stats["skipped"], 0) + 1
            continue
        for e in evs:
            events.append(e)
            owner.append((meta, stats))
        if len(stats.get("kinds", [])) >= 2:
            chk.distinct(meta["fn"])
        if stats.get("api_errors"):
            chk.notes.setdefault("api_errors", []).append(f"{meta['fn']}: {stats['api_errors'][0]}")
    # population level: the dtype of every column of a simulation must not change when unrelated households are
    # put in front of the table (the storage type must not depend on what other rows contain)
    pop_events = [e for evs in pool_map(pop_job, [(d, rnd.randrange(1 << 30), t) for t, d in enumerate(["2023-01-01", "2019-07-01", "2016-01-01"] * (2 if quick else 12))]) for e in evs]
    for e in pop_events:
        events.append(e)
        owner.append(({"fn": e["fn"].split(":", 1)[1], "node": e["fn"].split(":", 1)[1], "date": e.pop("date")}, {"rows": 0}))
    chk.count(len(events))
    tf, of = chk.work / "rows.json", chk.work / "rows.out.json"
    tlc.write_json(tf, events)
    r = tlc.run("Trace_Rows", "Trace_Rows.cfg", workdir=chk.work, env={"TRACE_FILE": str(tf), "OUT_FILE": str(of)}, timeout=1800)
    if r.violated:
        raise tlc.TLCFailure(f"Trace_Rows: {r.violated}\n{r.out[-1500:]}")
    out = tlc.read_json(of)
    chk.cov["traces_validated_against_impl"] += len(events)
    chk.notes.update({"trace_tlc_states": r.distinct, "skipped": skipped, "rules_evaluated": len({o[0]["fn"] for o in owner})})
    seen = set()
    for b in out["bad"]:
        meta, stats = owner[b["e"] - 1]
        e = events[b["e"] - 1]
        sig = f"C03|{b['c']}|fn={meta['fn']}"
        if sig in seen:
            continue
        seen.add(sig)
        diff = [(s, c) for s, c in zip(e["scalar"], e["column"]) if s != c][:3]
        chk.violation(sig, f"{meta['fn']} ({meta['node']} at {meta['date']}): {b['c']}; declared {e['declared']}, column dtype {e['dtype']}, order {e['order']}, differing cells {diff}", {**meta, "clause": b["c"], "declared": e["declared"], "dtype": e["dtype"], "order": e["order"], "examples": diff})
    for e in events[:2]:
        chk.sample({k: (v[:4] if isinstance(v, list) else v) for k, v in e.items()})
    chk.cov["rule"] = (
        "every internal rule (all validity periods) at a date inside its validity: seeded argument rows (types of the producing rule / documented input), scalar oracle per row, production column through the public API in two row orders "
        "(narrowest result kind first, widest first); distinct_nontrivial = rules whose drawn rows produce at least two different result kinds (bool/int/integral float/non-integral float)"
    )
    chk.assumptions += ["rows on which the scalar rule raises are discarded", "values compared as exact rationals"]
    return chk.finish()


def replay(path):
    case = json.load(open(path))["case"]
    meta, evs, stats = rule_job((case["node"], case["fn"], case["date"], 1, 40))
    for e in evs:
        print(e["order"], e["dtype"], [(s, c) for s, c in zip(e["scalar"], e["column"]) if s != c][:3])
    return 0
