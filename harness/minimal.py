"""check_minimal_specification as a specified outcome of Compute: TLC (Trace_Complete.Minimal over Derive /
Complete) predicts the unused data columns and unused overriding columns of a call; the implementation's
warning / error text must list exactly those."""
from __future__ import annotations

import re
import warnings

import derive
import gs
import tlc


def observed(df, date, targets, mode):
    from _gettsim.interface import compute_taxes_and_transfers

    p, f = gs.env(date)
    out = {"unused_data": None, "unused_overriding": None, "raised": ""}
    with warnings.catch_warnings(record=True) as w:
        warnings.simplefilter("always")
        try:
            compute_taxes_and_transfers(data=df, params=p, functions=f, targets=targets, check_minimal_specification=mode)
        except ValueError as e:
            out["raised"] = str(e)
    texts = [str(x.message) for x in w] + ([out["raised"]] if out["raised"] else [])
    for t in texts:
        names = re.findall(r'"([^"\n]+)"', t)
        if "columns in 'data' are unused" in t:
            out["unused_data"] = sorted(set(names))
        if "'columns_overriding_functions' are unused" in t:
            out["unused_overriding"] = sorted(set(names))
    return out


def run(chk, date, df, target_sets, tag):
    """Returns mismatch records."""
    from _gettsim.functions_loader import load_aggregation_dict

    p, f = gs.env(date)
    cases = []
    for i, T in enumerate(target_sets):
        c = derive.export_case(f"{tag}:{i}", date, list(df), T)
        cases.append({"id": c["id"], "minimal": True, "fns": c["fns"], "bgrp": c["bgrp"], "bpid": c["bpid"], "data": c["data"], "targets": c["targets"], "rspecs": []})
    tf, of = f"{chk.work}/min_{tag}.json", f"{chk.work}/min_{tag}.out.json"
    tlc.write_json(tf, cases)
    r = tlc.run("Trace_Complete", "Trace_Complete.cfg", workdir=chk.work, env={"TRACE_FILE": tf, "OUT_FILE": of}, timeout=1800)
    if r.violated:
        raise tlc.TLCFailure(f"Trace_Complete(minimal): {r.violated}\n{r.out[-1500:]}")
    pred = {o["case"]: o for o in tlc.read_json(of)}
    mism = []
    for i, T in enumerate(target_sets):
        exp = pred[f"{tag}:{i}"]
        for mode in ("warn", "raise"):
            obs = observed(df, date, T, mode)
            eu = sorted(exp["unused_data"])
            eo = sorted(exp["unused_overriding"])
            # with "raise" the first failing check stops the call: overriding columns are checked first
            if mode == "raise":
                if eo:
                    ok = obs["unused_overriding"] == eo and bool(obs["raised"])
                elif eu:
                    ok = obs["unused_data"] == eu and bool(obs["raised"])
                else:
                    ok = not obs["raised"]
            else:
                ok = (obs["unused_data"] or []) == eu and (obs["unused_overriding"] or []) == eo and not obs["raised"]
            chk.count(1)
            if not ok:
                mism.append({"date": date, "targets": T, "mode": mode, "expected_unused_data": eu, "expected_unused_overriding": eo, "observed": obs})
    chk.cov["traces_validated_against_impl"] += len(target_sets)
    return mism
