"""C16 — outputs are finite, non-negative and within statutory caps (exploration, TLC-judged).

Corner populations (zero income, very large income and wealth, negative rental income, ages
0-100, up to ten children, every household type of the generator) at change dates >= 2015 with
all nodes requested; every column is an `out` event (Finite; NonNegative for default targets)
and the cap table below gives `cap` events, all judged by TLC (Trace_Bounds over Bounds.tla).
"""
from __future__ import annotations

import json
import random

import numpy as np

import enc
import gs
import popgen
import runs
import tlc
from c04 import DATES
from common import Check, pool_map
from enc import dec

LEVEL = "exploration"


def caps_for(date, params, res, df):
    """(name, lhs column, factor, rhs column or constant array, slack)."""
    sv = params["sozialv_beitr"]
    out = [
        ("ALG II after priority <= before priority", "arbeitsl_geld_2_m_bg", 1.0, "arbeitsl_geld_2_vor_vorrang_m_bg", 1e-6),
        ("Wohngeld paid <= entitlement", "wohngeld_m_wthh", 1.0, "wohngeld_anspruchshöhe_m_wthh", 1e-6),
        ("Kinderzuschlag paid <= after wealth check", "kinderzuschl_m_bg", 1.0, "_kinderzuschl_nach_vermög_check_m_bg", 1e-6),
        ("Kinderzuschlag after wealth check <= before", "_kinderzuschl_nach_vermög_check_m_bg", 1.0, "_kinderzuschl_vor_vermög_check_m_bg", 1e-6),
        ("Wohngeld after wealth check <= before", "wohngeld_anspruchshöhe_m_wthh", 1.0, "wohngeld_nach_vermög_check_m_wthh", 1e-6) if False else None,
    ]
    n = len(df)
    rate = sv["beitr_satz"]
    try:
        rv = float(rate["ges_rentenv"]) if not isinstance(rate["ges_rentenv"], dict) else max(float(x) for x in rate["ges_rentenv"].values())
        out.append(("pension contribution <= rate x ceiling", "ges_rentenv_beitr_arbeitnehmer_m", 2 * rv, "_ges_rentenv_beitr_bemess_grenze_m", 0.01))
        alv = float(rate["arbeitsl_v"])
        out.append(("unemployment insurance contribution <= rate x ceiling", "arbeitsl_v_beitr_arbeitnehmer_m", 2 * alv, "_ges_rentenv_beitr_bemess_grenze_m", 0.01))
    except Exception:  # noqa: BLE001
        pass
    ag = params.get("arbeitsl_geld", {})
    if "satz_mit_kindern" in ag:
        out.append(("unemployment benefit <= highest replacement rate x assessment ceiling", "arbeitsl_geld_m", float(ag["satz_mit_kindern"]), "_ges_rentenv_beitr_bemess_grenze_m", 0.01))
    try:
        top = float(np.asarray(params["eink_st"]["eink_st_tarif"]["rates"])[0][-1])
        out.append(("income tax <= top rate x taxable income", "eink_st_ohne_kinderfreib_y_sn", top, "_zu_verst_eink_ohne_kinderfreib_y_sn", 1.0))
    except Exception:  # noqa: BLE001
        pass
    eg = params.get("elterngeld", {})
    if "höchstbetrag" in eg:
        # the multiple-birth bonus is a fixed amount per further child of the birth (taken from its own node); the sibling bonus
        # is 10 % of the (capped) base amount, at least the stated minimum
        mehr = res["elterngeld_mehrlingsbonus_m"].to_numpy().astype(float) if "elterngeld_mehrlingsbonus_m" in res else np.full(n, 10 * float(eg.get("mehrlingbonus", 0)))
        cap = float(eg["höchstbetrag"]) + mehr + max(float(eg.get("geschwisterbonus_minimum", 0)), 0.1 * float(eg["höchstbetrag"]))
        # slack 0.10: the sibling bonus is taken from the base amount before the maximum is applied, and the income ceiling
        # times the replacement rate (2770 x 0.65 = 1800.50) lies 50 cents above the maximum (bonus 180.05 instead of 180.00)
        out.append(("Elterngeld <= maximum + sibling bonus + multiple-birth bonus", "elterngeld_m", 1.0, cap, 0.10))
    kg = params.get("kindergeld", {}).get("kindergeld")
    if kg is not None and "kindergeld_anz_ansprüche" in res:
        m = max(float(x) for x in kg.values()) if isinstance(kg, dict) else float(kg)
        out.append(("Kindergeld <= highest rate x claims", "kindergeld_m", m, "kindergeld_anz_ansprüche", 0.01))
    # ---- health and long-term-care insurance: every assessment base is capped at the ceiling, every part of the
    #      contribution is at most (highest total rate) x ceiling, the employee-side total at most twice that
    #      (earnings or self-employment income AND pensions are assessed separately)
    def leaves(x):
        if isinstance(x, dict):
            return [v for y in x.values() for v in leaves(y)]
        return [float(x)] if isinstance(x, (int, float)) and not isinstance(x, bool) else []

    ceil_kv = "_ges_krankenv_beitr_bemess_grenze_m"
    if ceil_kv in res:
        c = res[ceil_kv].to_numpy().astype(float)
        for base in ("_ges_krankenv_bruttolohn_m", "_ges_krankenv_bruttolohn_reg_beschäftigt_m", "_ges_krankenv_bemessungsgrundlage_eink_selbständig", "_ges_krankenv_bemessungsgrundlage_rente_m"):
            out.append(("assessment base <= ceiling", base, 1.0, ceil_kv, 0.01))
        kv = rate.get("ges_krankenv")
        if kv is not None:
            gen = [v for k, v in kv.items() if "zusatz" not in k and "sonder" not in k] if isinstance(kv, dict) else [kv]
            add = [v for k, v in kv.items() if "zusatz" in k or "sonder" in k] if isinstance(kv, dict) else []
            r_kv = max(x for g in gen for x in leaves(g)) + sum(x for a in add for x in leaves(a))
            for part in ("_ges_krankenv_beitr_arbeitnehmer_reg_beschäftigt_m", "ges_krankenv_beitr_selbstständig_m", "ges_krankenv_beitr_rentner_m", "ges_krankenv_beitr_arbeitgeber_m"):
                out.append(("health contribution part <= total rate x ceiling", part, 1.0, r_kv * c, 0.01))
            out.append(("health contribution <= 2 x total rate x ceiling", "ges_krankenv_beitr_arbeitnehmer_m", 1.0, 2 * r_kv * c, 0.01))
        pv = rate.get("ges_pflegev")
        if pv is not None:
            lv = leaves(pv)
            r_pv = 2 * max(lv) + (sum(lv) - max(lv) if len(lv) > 1 else 0.0)
            for part in ("_ges_pflegev_beitr_arbeitnehmer_reg_beschäftigt_m", "ges_pflegev_beitr_selbstständig_m", "ges_pflegev_beitr_rentner_m", "ges_pflegev_beitr_arbeitgeber_m"):
                out.append(("care contribution part <= total rate x ceiling", part, 1.0, r_pv * c, 0.01))
            out.append(("care contribution <= 2 x total rate x ceiling", "ges_pflegev_beitr_arbeitnehmer_m", 1.0, 2 * r_pv * c, 0.01))
    parts = ["ges_pflegev_beitr_arbeitnehmer_m", "ges_krankenv_beitr_arbeitnehmer_m", "ges_rentenv_beitr_arbeitnehmer_m", "arbeitsl_v_beitr_arbeitnehmer_m"]
    if all(x in res for x in parts) and "sozialv_beitr_arbeitnehmer_m" in res:
        tot = sum(res[x].to_numpy().astype(float) for x in parts)
        out.append(("total employee contributions <= sum of the four branches", "sozialv_beitr_arbeitnehmer_m", 1.0, tot, 0.01))
    # ---- shares and per-child maxima the parameters state
    mb = params.get("arbeitsl_geld_2", {}).get("mehrbedarf_anteil", {})
    if isinstance(mb, dict) and "max" in mb:
        out.append(("single-parent additional need share <= statutory maximum share", "_arbeitsl_geld_2_alleinerz_mehrbedarf_m", 1.0, np.full(n, float(mb["max"])), 1e-9))
    kzmax = params.get("kinderzuschl", {}).get("maximum")
    if isinstance(kzmax, (int, float)) and "anz_personen_bg" in res:
        out.append(("Kinderzuschlag <= maximum per child x persons of the needs unit", "_kinderzuschl_vor_vermög_check_m_bg", 1.0, float(kzmax) * res["anz_personen_bg"].to_numpy().astype(float), 0.01))
    # ---- Grundrentenzuschlag: bonus points x (at most the maximum number of months) x pension value x (at most the maximum factor)
    gr = params.get("ges_rente", {})
    if all(x in res for x in ("grundr_zuschlag_bonus_entgeltp", "rentenwert")) and isinstance(gr.get("grundr_zeiten"), dict) and "grundr_zugangsfaktor_max" in gr:
        capg = res["grundr_zuschlag_bonus_entgeltp"].to_numpy().astype(float) * float(gr["grundr_zeiten"]["max"]) * res["rentenwert"].to_numpy().astype(float) * float(gr["grundr_zugangsfaktor_max"])
        out.append(("Grundrentenzuschlag <= bonus points x maximum months x pension value x maximum factor", "grundr_zuschlag_vor_eink_anr_m", 1.0, capg, 0.01))
        out.append(("Grundrentenzuschlag paid <= before income crediting", "grundr_zuschlag_m", 1.0, "grundr_zuschlag_vor_eink_anr_m", 0.01))
    # ---- transfers against the assessed need / entitlement
    out.append(("ALG II before priority <= assessed need", "arbeitsl_geld_2_vor_vorrang_m_bg", 1.0, "arbeitsl_geld_2_regelbedarf_m_bg", 1e-6))
    if "arbeitsl_geld_2_regelbedarf_m_bg" in res and "_grunds_im_alter_mehrbedarf_schwerbeh_g_m_eg" in res:
        need = res["arbeitsl_geld_2_regelbedarf_m_bg"].to_numpy().astype(float) + res["_grunds_im_alter_mehrbedarf_schwerbeh_g_m_eg"].to_numpy().astype(float)
        out.append(("Grundsicherung im Alter <= assessed need + additional need", "grunds_im_alter_m_eg", 1.0, need, 1.0))
    out.append(("Unterhaltsvorschuss <= the child's entitlement", "unterhaltsvors_m", 1.0, "_unterhaltsvors_anspruch_kind_m", 1.0))
    # ---- taxes
    out.append(("income tax <= income tax without child allowance", "eink_st_y_sn", 1.0, "eink_st_ohne_kinderfreib_y_sn", 1.0))
    try:
        ab = float(params["abgelt_st"]["satz"])
        out.append(("withholding tax on capital income <= rate x gross capital income", "abgelt_st_y_sn", ab, "kapitaleink_brutto_y_sn", 1.0))
    except Exception:  # noqa: BLE001
        pass
    try:
        sr = float(np.asarray(params["soli_st"]["soli_st"]["rates"])[0][-1])
        if "eink_st_mit_kinderfreib_y_sn" in res:
            basis = res["eink_st_mit_kinderfreib_y_sn"].to_numpy().astype(float) + (res["abgelt_st_y_sn"].to_numpy().astype(float) if "abgelt_st_y_sn" in res else 0.0)
            out.append(("solidarity surcharge <= nominal rate x (income tax + withholding tax)", "soli_st_y_sn", 1.0, sr * basis, 1.0))
    except Exception:  # noqa: BLE001
        pass
    return [c for c in out if c]


MODES = ["zero", "rich", "negative_rent", "old", "many_children", "mixed", "unemployed_high_earner", "disabled", "parental_leave_high_earner", "working_early_retiree"]


def corner_population(date, rnd, tid):
    kinds = list(popgen.CANON)
    mode = MODES[tid % len(MODES)]
    structs = [popgen.CANON[rnd.choice(kinds)] for _ in range(rnd.choice([1, 2]))]
    prof = {}
    if mode == "zero":
        prof = {k: 0.0 for k in ("bruttolohn_m", "eink_selbst_m", "kapitaleink_brutto_m", "eink_vermietung_m", "sonstig_eink_m", "vermögen_bedürft", "priv_rente_m", "bruttolohn_vorj_m", "elterngeld_nettoeinkommen_vorjahr_m")}
    elif mode == "rich":
        prof = {"bruttolohn_m": lambda i, r, d, rr: 1e7 / 12 if d["alter"] >= 18 else 0.0, "vermögen_bedürft": 1e9, "kapitaleink_brutto_m": 1e6, "eink_selbst_m": 5e5, "elterngeld_nettoeinkommen_vorjahr_m": 1e6, "bruttolohn_vorj_m": 1e6}
    elif mode == "negative_rent":
        prof = {"eink_vermietung_m": lambda i, r, d, rr: rr.choice([-5000.0, -300.0, -1e5]) if d["alter"] >= 18 else 0.0}
    elif mode == "unemployed_high_earner":
        prof = {"arbeitssuchend": lambda i, r, d, rr: d["alter"] >= 18, "anwartschaftszeit": True, "sozialv_pflicht_5j": 60.0, "arbeitsstunden_w": 0.0, "bruttolohn_m": 0.0, "m_durchg_alg1_bezug": 0.0,
                "bruttolohn_vorj_m": lambda i, r, d, rr: rr.choice([3000.0, 7000.0, 20000.0, 1e6]) if d["alter"] >= 18 else 0.0, "rentner": False}
    elif mode == "disabled":
        # reduced earning capacity (Erwerbsminderungsrente is a default target): fully / partially, pension started this year or
        # up to 15 years ago (young retirement ages), with and without the 36 months of compulsory contributions
        year = gs.year_of(date)
        # (the assessment period of the pension starts at the age of 17: a pension start before 20 is not a valid input)
        prof = {"voll_erwerbsgemind": lambda i, r, d, rr: d["alter"] >= 21 and rr.random() < 0.5,
                "teilw_erwerbsgemind": lambda i, r, d, rr: d["alter"] >= 21 and not d["voll_erwerbsgemind"] and rr.random() < 0.7,
                "rentner": lambda i, r, d, rr: d["alter"] >= 18 and (d["voll_erwerbsgemind"] or d["teilw_erwerbsgemind"] or d["rentner"]),
                "jahr_renteneintr": lambda i, r, d, rr: (year - rr.choice([k_ for k_ in (0, 0, 1, 5, 15) if d["alter"] - k_ >= 20])) if (d["voll_erwerbsgemind"] or d["teilw_erwerbsgemind"]) else d["jahr_renteneintr"],
                "m_pflichtbeitrag": lambda i, r, d, rr: rr.choice([0.0, 35.0, 36.0, 60.0, 240.0]) if d["alter"] >= 18 else 0.0,
                "bruttolohn_m": lambda i, r, d, rr: rr.choice([0.0, 0.0, 450.0, 1500.0]) if d["alter"] >= 18 else 0.0}
    P = popgen.compose(structs, date, rnd, profile=prof)
    if mode == "negative_rent" and (tid // len(MODES)) % 2 == 1:
        # rental losses of pensioners with small pensions and no wealth (Grundsicherung im Alter range)
        for p in P:
            if p["alter"] >= 25:
                p["alter"] = rnd.choice([67, 72, 80])
                p["geburtsjahr"] = gs.year_of(date) - p["alter"]
                p.update({"rentner": True, "jahr_renteneintr": p["geburtsjahr"] + 65, "bruttolohn_m": 0.0, "eink_selbst_m": 0.0, "kapitaleink_brutto_m": 0.0, "sonstig_eink_m": 0.0, "priv_rente_m": 0.0,
                          "entgeltp_west": rnd.choice([0.0, 5.0, 10.0]), "entgeltp_ost": 0.0, "vermögen_bedürft": 0.0, "eink_vermietung_m": rnd.choice([-150.0, -2000.0]), "voll_erwerbsgemind": False, "teilw_erwerbsgemind": False})
    if mode == "old":
        for p in P:
            if p["alter"] >= 25:
                p["alter"] = rnd.choice([67, 80, 100])
                p["geburtsjahr"] = gs.year_of(date) - p["alter"]
                p["rentner"] = True
                # retirement before, at and well after the standard age (access factor below, at and above one); long insurance
                # records with few points (Grundrente range)
                p["jahr_renteneintr"] = p["geburtsjahr"] + rnd.choice([63, 65, 67, 70])
                p["grundr_zeiten"] = rnd.choice([396, 420, 480])
                p["grundr_bew_zeiten"] = rnd.choice([396, 420, 480])
                p["grundr_entgeltp"] = rnd.choice([8.0, 14.0, 20.0])
                p["entgeltp_west"] = rnd.choice([8.0, 14.0, 20.0])
                p["bruttolohn_m"] = 0.0
    if mode == "many_children":
        a = popgen.rec(partner=2, spouse=2, gv=True)
        b = popgen.rec(partner=1, spouse=1, gv=True)
        couple = (tid // len(MODES)) % 2 == 1      # rounds alternate between a couple and a single parent (the couple meets the law in force today)
        nk = 10 if couple else rnd.choice([6, 8])
        if couple:
            s = [a, b] + [popgen.rec(age=24, e1=1, e2=2) for _ in range(nk)]
        else:   # a single parent with many children
            s = [popgen.rec()] + [popgen.rec(age=24, e1=1) for _ in range(nk)]
        P = popgen.compose([s], date, rnd)
        for k, p in enumerate(P[(2 if couple else 1):]):
            p["alter"] = k % 18
            p["geburtsjahr"] = gs.year_of(date) - p["alter"]
            p["kind"] = True
            p["bruttolohn_m"] = 0.0
            # (the generator may have dressed the record as an adult: a child is no pensioner)
            p.update({"rentner": False, "voll_erwerbsgemind": False, "teilw_erwerbsgemind": False, "m_pflichtbeitrag": 0.0, "arbeitssuchend": False, "eink_selbst_m": 0.0, "jahr_renteneintr": p["geburtsjahr"] + 67})
        if not couple:
            P[0]["alleinerz"] = True
        # the parents are in regular employment (child-related discounts of contributions apply to them)
        for p, w in zip(P[: (2 if couple else 1)], (3000.0, 1500.0)):
            p.update({"bruttolohn_m": w, "arbeitsstunden_w": 38.0, "rentner": False, "voll_erwerbsgemind": False, "teilw_erwerbsgemind": False, "selbstständig": False, "in_priv_krankenv": False, "alter": 42, "geburtsjahr": gs.year_of(date) - 42})
    if mode == "working_early_retiree":
        # pensioners below the standard retirement age who keep working for high wages (earnings deducted from the pension;
        # the cap from the best of the last fifteen years does not bind)
        for p in P:
            if p["alter"] >= 25:
                a_ = rnd.choice([63, 64])
                w_ = rnd.choice([2500.0, 4000.0, 6000.0, 9000.0])
                p.update({"alter": a_, "geburtsjahr": gs.year_of(date) - a_, "rentner": True, "jahr_renteneintr": gs.year_of(date) - 1, "bruttolohn_m": w_, "bruttolohn_vorj_m": w_, "arbeitsstunden_w": 40.0,
                          "höchster_bruttolohn_letzte_15_jahre_vor_rente_y": 12 * (w_ + 2000.0), "entgeltp_west": 40.0, "entgeltp_ost": 0.0, "voll_erwerbsgemind": False, "teilw_erwerbsgemind": False,
                          "m_pflichtbeitrag": 480.0, "y_pflichtbeitr_ab_40": 20.0, "selbstständig": False, "eink_selbst_m": 0.0})
    if mode == "parental_leave_high_earner":
        # a parent on leave without current earnings, very high net income before the birth, small siblings (sibling bonus
        # and multiple-birth bonus range), previous year's taxable income below the eligibility limit
        import datetime as _dt

        nk = rnd.choice([2, 3])
        s = [popgen.rec(partner=2, spouse=2, gv=True), popgen.rec(partner=1, spouse=1, gv=True)] + [popgen.rec(age=24, e1=1, e2=2) for _ in range(nk)]
        P = popgen.compose([s], date, rnd)
        d0 = _dt.date.fromisoformat(date)
        for k_, p in enumerate(P[2:]):
            b = d0 - _dt.timedelta(days=60 + 400 * k_)
            p.update({"alter": (d0 - b).days // 366, "geburtsjahr": b.year, "geburtsmonat": b.month, "geburtstag": min(b.day, 28), "kind": True, "bruttolohn_m": 0.0, "p_id_kindergeld_empf": P[0]["p_id"],
                      "rentner": False, "voll_erwerbsgemind": False, "teilw_erwerbsgemind": False, "m_pflichtbeitrag": 0.0, "arbeitssuchend": False, "eink_selbst_m": 0.0, "jahr_renteneintr": b.year + 67})
        P[0].update({"alter": 33, "geburtsjahr": d0.year - 33, "bruttolohn_m": 0.0, "bruttolohn_vorj_m": 9000.0, "arbeitsstunden_w": 0.0, "eink_selbst_m": 0.0, "kapitaleink_brutto_m": 0.0, "eink_vermietung_m": 0.0, "sonstig_eink_m": 0.0,
                     "elterngeld_claimed": True, "monate_elterngeldbezug": rnd.choice([0, 3]), "elterngeld_nettoeinkommen_vorjahr_m": rnd.choice([4000.0, 8000.0, 25000.0]), "rentner": False,
                     "voll_erwerbsgemind": False, "teilw_erwerbsgemind": False})
        P[1].update({"alter": 36, "geburtsjahr": d0.year - 36, "bruttolohn_m": 3000.0, "arbeitsstunden_w": 40.0, "elterngeld_claimed": False, "rentner": False, "voll_erwerbsgemind": False, "teilw_erwerbsgemind": False})
        for p in P[:2]:
            p["elterngeld_zu_verst_eink_vorjahr_y_sn"] = 120000.0
    return gs.build_population(P, date), P, mode


def job(j):
    date, seed, tid, work = j
    rnd = random.Random(seed)
    df, P, mode = corner_population(date, rnd, tid)
    info = {"tid": tid, "date": date, "mode": mode, "persons": P, "n": len(df)}
    params, functions = gs.env(date)
    dt = set(gs.default_targets())
    try:
        res, excluded = gs.compute_all(df, date, rounding=True)
    except Exception as e:  # noqa: BLE001
        info["base_error"] = f"{type(e).__name__}: {str(e)[:200]}"
        return info
    info["positive"] = {t: int((res[t].to_numpy() > 0).sum()) for t in dt if t in res}
    info["excluded_default"] = sorted(set(excluded) & gs.default_ancestors(date, list(df)))[:10]
    pool = enc.Pool()
    events, meta = [], []
    for c in res.columns:
        a = res[c].to_numpy()
        if a.dtype.kind not in "fiub":
            continue
        events.append({"k": "out", "node": c, "target": c in dt, "vals": pool.column(a)})
        meta.append({"node": c})
    for name, lhs, factor, rhs, slack in caps_for(date, params, res, df):
        if lhs not in res or (isinstance(rhs, str) and rhs not in res):
            continue
        r = res[rhs].to_numpy() if isinstance(rhs, str) else rhs
        events.append({"k": "cap", "name": name, "lhs": pool.column(res[lhs].to_numpy().astype(float)), "factor": dec(factor), "rhs": pool.column(np.asarray(r, dtype=float)), "slack": dec(slack)})
        m_ = {"node": lhs, "cap": name}
        if lhs.startswith("arbeitsl_geld_2_") and "arbeitsl_geld_2_eink_m_bg" in res:
            # root-cause tag for the known finding: do all rows above the cap have a NEGATIVE SGB II income of the needs unit?
            over = res[lhs].to_numpy().astype(float) * factor > np.asarray(r, dtype=float) + slack
            m_["sgb2_income_negative"] = bool(over.any() and (res["arbeitsl_geld_2_eink_m_bg"].to_numpy()[over] < 0).all())
        meta.append(m_)
    tf, of = f"{work}/b_{tid}.json", f"{work}/b_{tid}.out.json"
    tlc.write_json(tf, {"pool": pool.items, "events": events})
    r = tlc.run("Trace_Bounds", "Trace_Bounds.cfg", workdir=work, env={"TRACE_FILE": tf, "OUT_FILE": of}, timeout=1800)
    if r.violated:
        raise tlc.TLCFailure(f"Trace_Bounds: {r.violated}\n{r.out[-1500:]}")
    o = tlc.read_json(of)
    info["bad"] = [(meta[b["e"] - 1], b["c"]) for b in o["bad"]]
    info["nout"] = sum(1 for e in events if e["k"] == "out")
    info["ncap"] = sum(1 for e in events if e["k"] == "cap")
    info["tlc_states"] = r.distinct
    return info


def run(tier):
    chk = Check("C16", tier, LEVEL)
    rnd = random.Random(chk.seed * 65537 + 16)
    quick = tier == "quick"
    from c04 import change_dates_for

    dates = change_dates_for(rnd, quick, 3, nreg=1)
    njobs = 50 if quick else 20 * len(dates)
    # every corner mode meets every date of the run (the date index rotates with each round through the modes)
    outs = pool_map(job, sorted([(dates[(t + t // len(MODES)) % len(dates)], rnd.randrange(1 << 30), t, str(chk.work)) for t in range(njobs)]))
    seen = set()
    for info in outs:
        if "base_error" in info:
            chk.violation(f"C16|raised|date={info['date']}|{info['base_error'][:50]}", f"computing all nodes raised on a corner population ({info['mode']})", {k: info[k] for k in ("date", "mode", "persons", "base_error")})
            continue
        for t_, n_ in info.get("positive", {}).items():
            chk.notes.setdefault("rows_with_positive_default_target", {})[t_] = chk.notes.get("rows_with_positive_default_target", {}).get(t_, 0) + n_
        chk.count(info["nout"] + info["ncap"])
        chk.cov["traces_validated_against_impl"] += 1
        chk.notes["trace_tlc_states"] = chk.notes.get("trace_tlc_states", 0) + info["tlc_states"]
        chk.distinct(f"{info['date']}:{info['mode']}:{info['tid']}")
        for m, clause in info["bad"]:
            sig = f"C16|{clause}|node={m['node']}" + (f"|cap={m['cap']}" if "cap" in m else "") + (f"|sgb2_income_negative={'yes' if m['sgb2_income_negative'] else 'no'}" if "sgb2_income_negative" in m else "")
            if sig in seen:
                continue
            seen.add(sig)
            chk.violation(sig, f"{m['node']}: {clause}" + (f" ({m['cap']})" if "cap" in m else "") + f" on a {info['mode']} population at {info['date']}", {"date": info["date"], "mode": info["mode"], "persons": info["persons"], **m})
        chk.sample({"date": info["date"], "mode": info["mode"], "persons": info["n"], "columns": info["nout"], "caps": info["ncap"]})
    chk.cov["rule"] = (
        "corner populations in ten modes (working pensioners below the standard age with high wages; a parent on leave with very high income before the birth and small siblings; reduced earning capacity with early pension start; all incomes zero; 1e7 yearly income with 1e9 wealth; negative rental income; ages 67-100 pensioners; couple with 6-10 children; mixed; unemployed former high earners) over random structures, all nodes with rounding on, at 5 seeded change / regime dates (thorough: every change date 2015-2025 outside 2017H1); "
        "every numeric column checked Finite, default targets NonNegative, 6-8 cap relations per run; distinct_nontrivial = distinct (date, mode, population)"
    )
    chk.assumptions += ["caps are a hand-written table of relations (see caps_for); the 'e.g.' list of the statement is covered first", "non-negativity tolerance 1e-9"]
    chk.notes["dates"] = dates
    return chk.finish()


def replay(path):
    case = json.load(open(path))["case"]
    df = gs.build_population(case["persons"], case["date"])
    res = gs.compute(df, case["date"], targets=[case["node"]])
    print(res)
    return 1 if (not np.isfinite(res[case["node"]].to_numpy().astype(float)).all() or (res[case["node"]] < 0).any()) else 0
