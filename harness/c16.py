"""C16 — outputs are finite, non-negative and within statutory caps (exploration, TLC-judged).

Corner populations (zero income, very large income and wealth, negative rental income, ages
0-100, up to ten children, every household type of the generator) at change dates >= 2015 with
all nodes requested; every column is an `out` event (Finite; NonNegative for default targets)
and the cap table below gives `cap` events, all judged by TLC (Trace_Bounds over Bounds.tla).
"""
from __future__ import annotations

import json
import random

import numpy as np

import enc
import gs
import popgen
import runs
import tlc
from c04 import DATES
from common import Check, pool_map
from enc import dec

LEVEL = "exploration"


def caps_for(date, params, res, df):
    """(name, lhs column, factor, rhs column or constant array, slack)."""
    sv = params["sozialv_beitr"]
    out = [
        ("ALG II after priority <= before priority", "arbeitsl_geld_2_m_bg", 1.0, "arbeitsl_geld_2_vor_vorrang_m_bg", 1e-6),
        ("Wohngeld paid <= entitlement", "wohngeld_m_wthh", 1.0, "wohngeld_anspruchshöhe_m_wthh", 1e-6),
        ("Kinderzuschlag paid <= after wealth check", "kinderzuschl_m_bg", 1.0, "_kinderzuschl_nach_vermög_check_m_bg", 1e-6),
        ("Kinderzuschlag after wealth check <= before", "_kinderzuschl_nach_vermög_check_m_bg", 1.0, "_kinderzuschl_vor_vermög_check_m_bg", 1e-6),
        ("Wohngeld after wealth check <= before", "wohngeld_anspruchshöhe_m_wthh", 1.0, "wohngeld_nach_vermög_check_m_wthh", 1e-6) if False else None,
    ]
    n = len(df)
    rate = sv["beitr_satz"]
    try:
        rv = float(rate["ges_rentenv"]) if not isinstance(rate["ges_rentenv"], dict) else max(float(x) for x in rate["ges_rentenv"].values())
        out.append(("pension contribution <= rate x ceiling", "ges_rentenv_beitr_arbeitnehmer_m", 2 * rv, "_ges_rentenv_beitr_bemess_grenze_m", 0.01))
        alv = float(rate["arbeitsl_v"])
        out.append(("unemployment insurance contribution <= rate x ceiling", "arbeitsl_v_beitr_arbeitnehmer_m", 2 * alv, "_ges_rentenv_beitr_bemess_grenze_m", 0.01))
    except Exception:  # noqa: BLE001
        pass
    ag = params.get("arbeitsl_geld", {})
    if "satz_mit_kindern" in ag:
        out.append(("unemployment benefit <= highest replacement rate x assessment ceiling", "arbeitsl_geld_m", float(ag["satz_mit_kindern"]), "_ges_rentenv_beitr_bemess_grenze_m", 0.01))
    try:
        top = float(np.asarray(params["eink_st"]["eink_st_tarif"]["rates"])[0][-1])
        out.append(("income tax <= top rate x taxable income", "eink_st_ohne_kinderfreib_y_sn", top, "_zu_verst_eink_ohne_kinderfreib_y_sn", 1.0))
    except Exception:  # noqa: BLE001
        pass
    eg = params.get("elterngeld", {})
    if "höchstbetrag" in eg:
        cap = float(eg["höchstbetrag"]) + 10 * float(eg.get("mehrlingbonus", 0)) + max(float(eg.get("geschwisterbonus_minimum", 0)), 0.1 * float(eg["höchstbetrag"]))
        out.append(("Elterngeld <= maximum + sibling bonus + multiple-birth bonus", "elterngeld_m", 1.0, np.full(n, cap), 0.01))
    kg = params.get("kindergeld", {}).get("kindergeld")
    if kg is not None and "kindergeld_anz_ansprüche" in res:
        m = max(float(x) for x in kg.values()) if isinstance(kg, dict) else float(kg)
        out.append(("Kindergeld <= highest rate x claims", "kindergeld_m", m, "kindergeld_anz_ansprüche", 0.01))
    return [c for c in out if c]


def corner_population(date, rnd, tid):
    kinds = list(popgen.CANON)
    mode = ["zero", "rich", "negative_rent", "old", "many_children", "mixed", "unemployed_high_earner"][tid % 7]
    structs = [popgen.CANON[rnd.choice(kinds)] for _ in range(rnd.choice([1, 2]))]
    prof = {}
    if mode == "zero":
        prof = {k: 0.0 for k in ("bruttolohn_m", "eink_selbst_m", "kapitaleink_brutto_m", "eink_vermietung_m", "sonstig_eink_m", "vermögen_bedürft", "priv_rente_m", "bruttolohn_vorj_m", "elterngeld_nettoeinkommen_vorjahr_m")}
    elif mode == "rich":
        prof = {"bruttolohn_m": lambda i, r, d, rr: 1e7 / 12 if d["alter"] >= 18 else 0.0, "vermögen_bedürft": 1e9, "kapitaleink_brutto_m": 1e6, "eink_selbst_m": 5e5, "elterngeld_nettoeinkommen_vorjahr_m": 1e6, "bruttolohn_vorj_m": 1e6}
    elif mode == "negative_rent":
        prof = {"eink_vermietung_m": lambda i, r, d, rr: rr.choice([-5000.0, -300.0, -1e5]) if d["alter"] >= 18 else 0.0}
    elif mode == "unemployed_high_earner":
        prof = {"arbeitssuchend": lambda i, r, d, rr: d["alter"] >= 18, "anwartschaftszeit": True, "sozialv_pflicht_5j": 60.0, "arbeitsstunden_w": 0.0, "bruttolohn_m": 0.0, "m_durchg_alg1_bezug": 0.0,
                "bruttolohn_vorj_m": lambda i, r, d, rr: rr.choice([3000.0, 7000.0, 20000.0, 1e6]) if d["alter"] >= 18 else 0.0, "rentner": False}
    P = popgen.compose(structs, date, rnd, profile=prof)
    if mode == "old":
        for p in P:
            if p["alter"] >= 25:
                p["alter"] = rnd.choice([67, 80, 100])
                p["geburtsjahr"] = gs.year_of(date) - p["alter"]
                p["rentner"] = True
                p["jahr_renteneintr"] = p["geburtsjahr"] + 65
                p["bruttolohn_m"] = 0.0
    if mode == "many_children":
        a = popgen.rec(partner=2, spouse=2, gv=True)
        b = popgen.rec(partner=1, spouse=1, gv=True)
        s = [a, b] + [popgen.rec(age=24, e1=1, e2=2) for _ in range(rnd.choice([6, 10]))]
        P = popgen.compose([s], date, rnd)
        for k, p in enumerate(P[2:]):
            p["alter"] = k % 18
            p["geburtsjahr"] = gs.year_of(date) - p["alter"]
            p["kind"] = True
            p["bruttolohn_m"] = 0.0
    return gs.build_population(P, date), P, mode


def job(j):
    date, seed, tid, work = j
    rnd = random.Random(seed)
    df, P, mode = corner_population(date, rnd, tid)
    info = {"tid": tid, "date": date, "mode": mode, "persons": P, "n": len(df)}
    params, functions = gs.env(date)
    dt = set(gs.default_targets())
    try:
        res, excluded = gs.compute_all(df, date, rounding=True)
    except Exception as e:  # noqa: BLE001
        info["base_error"] = f"{type(e).__name__}: {str(e)[:200]}"
        return info
    info["excluded_default"] = sorted(set(excluded) & gs.default_ancestors(date, list(df)))[:10]
    pool = enc.Pool()
    events, meta = [], []
    for c in res.columns:
        a = res[c].to_numpy()
        if a.dtype.kind not in "fiub":
            continue
        events.append({"k": "out", "node": c, "target": c in dt, "vals": pool.column(a)})
        meta.append({"node": c})
    for name, lhs, factor, rhs, slack in caps_for(date, params, res, df):
        if lhs not in res or (isinstance(rhs, str) and rhs not in res):
            continue
        r = res[rhs].to_numpy() if isinstance(rhs, str) else rhs
        events.append({"k": "cap", "name": name, "lhs": pool.column(res[lhs].to_numpy().astype(float)), "factor": dec(factor), "rhs": pool.column(np.asarray(r, dtype=float)), "slack": dec(slack)})
        meta.append({"node": lhs, "cap": name})
    tf, of = f"{work}/b_{tid}.json", f"{work}/b_{tid}.out.json"
    tlc.write_json(tf, {"pool": pool.items, "events": events})
    r = tlc.run("Trace_Bounds", "Trace_Bounds.cfg", workdir=work, env={"TRACE_FILE": tf, "OUT_FILE": of}, timeout=1800)
    if r.violated:
        raise tlc.TLCFailure(f"Trace_Bounds: {r.violated}\n{r.out[-1500:]}")
    o = tlc.read_json(of)
    info["bad"] = [(meta[b["e"] - 1], b["c"]) for b in o["bad"]]
    info["nout"] = sum(1 for e in events if e["k"] == "out")
    info["ncap"] = sum(1 for e in events if e["k"] == "cap")
    info["tlc_states"] = r.distinct
    return info


def run(tier):
    chk = Check("C16", tier, LEVEL)
    rnd = random.Random(chk.seed * 65537 + 16)
    quick = tier == "quick"
    dates = ["2023-01-01"] + rnd.sample([d for d in DATES if d != "2023-01-01"], 3 if quick else len(DATES) - 1)
    njobs = 28 if quick else 420
    outs = pool_map(job, sorted([(dates[t % len(dates)], rnd.randrange(1 << 30), t, str(chk.work)) for t in range(njobs)]))
    seen = set()
    for info in outs:
        if "base_error" in info:
            chk.violation(f"C16|raised|date={info['date']}|{info['base_error'][:50]}", f"computing all nodes raised on a corner population ({info['mode']})", {k: info[k] for k in ("date", "mode", "persons", "base_error")})
            continue
        chk.count(info["nout"] + info["ncap"])
        chk.cov["traces_validated_against_impl"] += 1
        chk.notes["trace_tlc_states"] = chk.notes.get("trace_tlc_states", 0) + info["tlc_states"]
        chk.distinct(f"{info['date']}:{info['mode']}:{info['tid']}")
        for m, clause in info["bad"]:
            sig = f"C16|{clause}|node={m['node']}" + (f"|cap={m['cap']}" if "cap" in m else "")
            if sig in seen:
                continue
            seen.add(sig)
            chk.violation(sig, f"{m['node']}: {clause}" + (f" ({m['cap']})" if "cap" in m else "") + f" on a {info['mode']} population at {info['date']}", {"date": info["date"], "mode": info["mode"], "persons": info["persons"], **m})
        chk.sample({"date": info["date"], "mode": info["mode"], "persons": info["n"], "columns": info["nout"], "caps": info["ncap"]})
    chk.cov["rule"] = (
        "corner populations in seven modes (all incomes zero; 1e7 yearly income with 1e9 wealth; negative rental income; ages 67-100 pensioners; couple with 6-10 children; mixed; unemployed former high earners) over random structures, all nodes with rounding on, at 4 (thorough 10) dates; "
        "every numeric column checked Finite, default targets NonNegative, 6-8 cap relations per run; distinct_nontrivial = distinct (date, mode, population)"
    )
    chk.assumptions += ["caps are a hand-written table of relations (see caps_for); the 'e.g.' list of the statement is covered first", "non-negativity tolerance 1e-9"]
    chk.notes["dates"] = dates
    return chk.finish()


def replay(path):
    case = json.load(open(path))["case"]
    df = gs.build_population(case["persons"], case["date"])
    res = gs.compute(df, case["date"], targets=[case["node"]])
    print(res)
    return 1 if (not np.isfinite(res[case["node"]].to_numpy().astype(float)).all() or (res[case["node"]] < 0).any()) else 0
