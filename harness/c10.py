"""C10 — statutory rounding exactly once, on the right grid.

A  MC_Round (theorems about RoundSpec on a rational grid), MC_Dag RoundedExactlyOnce.
B  an identity probe rule with a rounding key through the public API on crafted values
   (on-grid, half-way, +-epsilon, negative, large) for base x direction x offset; its derived
   yearly / household nodes must be factor x / sum of the ROUNDED value; a rounding key
   without specification must raise.
C  every rounded rule of the real rule base at several dates: unrounded vs rounded column on
   identical inputs (the rule's arguments are supplied as data), judged by TLC (Trace_Arith).
"""
from __future__ import annotations

import json
import random

import numpy as np
import pandas as pd

import arith
import enc
import gs
import mc_dag
import tlc
from c04 import DATES, make_population
from common import Check, pool_map
from enc import dec

LEVEL = "model_checking"


def witness(r, off, base):
    return [dec(int(np.round((float(x) - off) / base))) if np.isfinite(x) else dec(0) for x in r]


def probe_events():
    from _gettsim.shared import policy_info

    tr = arith.ArithTrace()
    date = "2023-01-01"
    P = gs.household("family", 0, 0) + gs.household("couple", 10, 1) + gs.household("single", 20, 2)
    df0 = gs.build_population(P, date)
    n = len(df0)
    cases = 0
    for base in (1, 0.01, 5, 0.5, 100):
        for direction in ("up", "down", "nearest"):
            for off in (0, 13.804881, 18):
                xs = []
                for k in (-3, 0, 2, 7, 1234567):
                    for d in (0.0, 0.25, 0.5, 0.5 + 1e-9, 0.5 - 1e-9, 0.999999999, 1e-9):
                        xs.append((k + d) * base)
                xs = np.array(xs, dtype=float)
                for start in range(0, len(xs), n):
                    chunk = xs[start : start + n]
                    if len(chunk) < n:
                        chunk = np.concatenate([chunk, np.zeros(n - len(chunk))])
                    df = df0.copy()
                    df["probe_in"] = chunk

                    @policy_info(params_key_for_rounding="probe")
                    def probe_m(probe_in: float) -> float:
                        return probe_in

                    params = {"probe": {"rounding": {"probe_m": {"base": base, "direction": direction, "to_add_after_rounding": off}}}}
                    meta = {"via": "probe", "node": "probe_m", "base": base, "direction": direction, "offset": off, "x": chunk.tolist()}
                    try:
                        r = gs.compute(df, date, params=params, functions={"probe_m": probe_m}, targets=["probe_m", "probe_y", "probe_m_hh"], rounding=True)
                        u = gs.compute(df, date, params=params, functions={"probe_m": probe_m}, targets=["probe_m"], rounding=False)
                    except Exception as e:  # noqa: BLE001
                        tr.add({"k": "unknown", "err": str(e)[:80]}, {**meta, "raised": f"{type(e).__name__}: {str(e)[:100]}"})
                        continue
                    rv = r["probe_m"].to_numpy()
                    tr.add({"k": "round", "node": "probe_m", "base": enc.dec_written(base), "dir": direction, "off": enc.dec_written(off), "x": tr.cells(chunk), "r": tr.cells(rv), "kk": witness(rv, off, base)}, meta)
                    tr.add({"k": "equal", "node": "probe_m", "x": tr.cells(u["probe_m"].to_numpy()), "y": tr.cells(chunk)}, {**meta, "what": "rounding=False must return the unrounded value"})
                    tr.add({"k": "conv", "a": "probe_y", "ua": "y", "xa": tr.cells(r["probe_y"].to_numpy()), "b": "probe_m", "ub": "m", "xb": tr.cells(rv)}, {**meta, "what": "derived yearly node must be 12 x the rounded value (not rounded again)"})
                    tr.add({"k": "agg", "node": "probe_m_hh", "kind": "sum", "src": tr.cells(rv), "ids": df["hh_id"].tolist(), "obs": tr.cells(r["probe_m_hh"].to_numpy())}, {**meta, "what": "derived household node must be the sum of the rounded values"})
                    cases += 1

    # a rounding key without a specification must raise
    @policy_info(params_key_for_rounding="probe")
    def probe2_m(alter: int) -> float:
        return alter * 1.5

    for params in ({}, {"probe": {}}, {"probe": {"rounding": {}}}, {"probe": {"rounding": {"other": {"base": 1, "direction": "up"}}}}, {"probe": {"rounding": {"probe2_m": {"base": 1}}}}):
        raised = False
        try:
            gs.compute(df0, date, params=params, functions={"probe2_m": probe2_m}, targets=["probe2_m"], rounding=True)
        except Exception:  # noqa: BLE001
            raised = True
        tr.add({"k": "missingspec", "node": "probe2_m", "raised": raised}, {"via": "probe", "node": "probe2_m", "params": json.dumps(params), "what": "rounding key without specification"})
    return tr, cases


def real_job(j):
    date, seed, tid, work = j
    rnd = random.Random(seed)
    df, P = make_population(date, rnd, k=3)
    info = {"tid": tid, "date": date, "persons": P, "n": len(df), "errors": []}
    params, functions = gs.env(date)
    rounded = {n: f.__info__["params_key_for_rounding"] for n, f in functions.items() if getattr(f, "__info__", {}).get("params_key_for_rounding")}
    ok, args = gs.all_nodes(date, list(df))
    targets = sorted({n for n in rounded if n in ok} | {a for n in rounded if n in ok for a in args[n] if a not in df.columns})
    try:
        raw, excluded = gs.compute_all(df, date, targets=targets, rounding=False)
    except Exception as e:  # noqa: BLE001
        info["base_error"] = f"{type(e).__name__}: {str(e)[:200]}"
        return info, None
    tr = arith.ArithTrace()
    for n, key in sorted(rounded.items()):
        if n not in raw:
            continue
        spec = params.get(key, {}).get("rounding", {}).get(n)
        if spec is None:
            # C10: a rule marked for rounding without specification at that date is an error
            raised = False
            try:
                gs.compute(df, date, targets=[n], rounding=True)
            except Exception:  # noqa: BLE001
                raised = True
            tr.add({"k": "missingspec", "node": n, "raised": raised}, {"via": "api", "node": n, "date": date, "what": "rounded rule without specification at this date"})
            continue
        d2 = df.copy()
        for a in args[n]:
            if a not in d2.columns and a in raw:
                d2[a] = raw[a].to_numpy()
        try:
            r = gs.compute(d2, date, targets=[n], rounding=True)
            u = gs.compute(d2, date, targets=[n], rounding=False)
        except Exception as e:  # noqa: BLE001
            info["errors"].append({"node": n, "error": f"{type(e).__name__}: {str(e)[:120]}"})
            continue
        base, direction, off = spec["base"], spec["direction"], spec.get("to_add_after_rounding", 0)
        x = u[n].to_numpy().astype(float)
        rv = r[n].to_numpy().astype(float)
        meta = {"via": "api", "node": n, "date": date, "base": base, "direction": direction, "offset": off, "tid": tid}
        tr.add({"k": "round", "node": n, "base": enc.dec_written(base), "dir": direction, "off": enc.dec_written(off), "x": tr.cells(x), "r": tr.cells(rv), "kk": witness(rv, off, base)}, meta)
        tr.add({"k": "equal", "node": n, "x": tr.cells(x), "y": tr.cells(raw[n].to_numpy().astype(float))}, {**meta, "what": "with the arguments supplied as data the unrounded value is reproduced"})
    info["n_events"] = len(tr.events)
    return info, tr


def run(tier):
    chk = Check("C10", tier, LEVEL)
    rnd = random.Random(chk.seed * 65537 + 10)
    quick = tier == "quick"
    mc_dag.run_mc(chk, quick, which="C10")
    import toy

    for m_ in toy.run_toy(chk, quick, rnd, "C10", kinds=['round'])[:5]:
        chk.violation(f"C10|toy-universe|target={m_['target']}|{m_['what'][:40]}", f"toy universe (MC_Dag configuration {m_['id']}): {m_['what']} for target {m_['target']}", m_)
    res = tlc.run("MC_Round", "MC_Round.cfg", workdir=chk.work, workers=8, timeout=900)
    if res.violated:
        chk.violation(f"C10|spec-theorem|{','.join(res.violated)}", "RoundSpec violates a theorem", {"out": res.out[-2000:]})
    else:
        chk.add_mc(res, "MC_Round")
    tr0, ncases = probe_events()
    chk.count(len(tr0.events))
    dates = ["2023-01-01", "2002-01-01"] + rnd.sample([d for d in DATES if d != "2023-01-01"] + ["2001-06-01", "2003-01-01", "2005-01-01", "2010-01-01"], 2 if quick else 10)
    # the specification in force (base, direction, offset) is the law's, not the environment's:
    # Timeline.tla resolves it from the raw YAML entries and TLC compares (clause `rounding`)
    import c07

    raw_file = chk.work / "raw.json"
    tlc.write_json(raw_file, {"groups": c07.export_raw(), "impls": []})
    # every day on which a rounding specification changes, the day before, and the first and last day of that year
    import datetime

    rdays = set()
    for g_ in c07.export_raw():
        for r_ in g_.get("rounding", []):
            for e_ in r_["entries"]:
                d_ = datetime.date.fromordinal(e_["day"])
                if d_.year >= 1995:
                    rdays |= {d_, d_ - datetime.timedelta(days=1), datetime.date(d_.year, 1, 1), datetime.date(d_.year, 12, 31)}
    spec_days = sorted(set(dates) | {"2001-01-01", "2001-12-31", "2003-12-31", "2004-01-01"} | {d_.isoformat() for d_ in rdays})
    chk.notes["rounding_spec_days"] = spec_days
    evs = [e for d in spec_days for e in c07.observe_day((d, False))[0] if e["k"] == "env"]
    badspec, st, _meta = c07.judge(chk, raw_file, evs, "c10spec")
    chk.count(len(evs))
    chk.cov["traces_validated_against_impl"] += len(evs)
    seen_spec = set()
    for idx, clause, names in badspec:
        if clause != "rounding":
            continue
        for nm in names:
            if (evs[idx]["group"], nm) in seen_spec:
                continue
            seen_spec.add((evs[idx]["group"], nm))
            chk.violation(f"C10|spec-of-date|group={evs[idx]['group']}|node={nm}", f"the rounding specification of {nm} in the environment of {evs[idx]['iso']} is not the one in force (base/direction/offset)", {"date": evs[idx]["iso"], "group": evs[idx]["group"], "node": nm})
    njobs = 8 if quick else 60
    jobs = [(dates[t % len(dates)], rnd.randrange(1 << 30), t, str(chk.work)) for t in range(njobs)]
    jobs.sort()
    outs = pool_map(real_job, jobs)
    traces = [tr0]
    for info, tr in outs:
        if "base_error" in info:
            chk.notes.setdefault("base_errors", []).append({k: info[k] for k in ("date", "base_error")})
            continue
        traces.append(tr)
        chk.count(info["n_events"])
        for e in info["errors"]:
            chk.notes.setdefault("node_errors", []).append(f"{info['date']}:{e['node']}:{e['error'][:60]}")
        chk.sample({"date": info["date"], "persons": info["n"], "events": info["n_events"]})
    bad, tstates = arith.judge(traces, chk.work, "c10")
    chk.cov["traces_validated_against_impl"] += sum(len(t.events) for t in traces)
    chk.notes["trace_tlc_states"] = tstates
    chk.notes["probe_cases"] = ncases
    seen = set()
    for meta, clause in bad:
        sig = f"C10|{clause}|node={meta['node']}|via={meta['via']}" + (f"|dir={meta['direction']}" if "direction" in meta else "")
        if sig in seen:
            continue
        seen.add(sig)
        chk.violation(sig, f"{meta['node']}: {clause} ({meta.get('what', 'rounded value is not the unrounded value moved onto the statutory grid')})", meta)
    for t in traces:
        for m in t.meta:
            chk.distinct((m["node"], m.get("date", "-"), m.get("base"), m.get("direction"), m.get("offset")))
    chk.sample({"probe": tr0.meta[0]})
    chk.cov["rule"] = (
        "probe: identity rule with rounding key through the public API for 5 bases x 3 directions x 3 offsets x 35 crafted values (grid points, half-way points, +-1e-9, negative, large) incl. derived yearly/household nodes and 5 missing-specification shapes; "
        "real: every rounded rule of the environment at the chosen dates with its arguments supplied as data, rounded vs unrounded; distinct_nontrivial = distinct (node, date, base, direction, offset)"
    )
    chk.assumptions += ["ties of `nearest` accepted either way", "slack for binary floating point: 1e-9 of a grid step + 1e-12 of |x| on the closed side only", "the integer witness k is supplied by the harness and verified by TLC"]
    chk.notes["dates"] = dates
    return chk.finish()


def replay(path):
    d = json.load(open(path))
    print(json.dumps(d["case"], ensure_ascii=False)[:800])
    return run("quick")
