"""Export of a call's inputs and of the function table the implementation builds (for Trace_Derive)."""
from __future__ import annotations

import gs
import tlc


def spec(k, v):
    return {"name": k, "aggr": v["aggr"], "src": v.get("source_col", ""), "by": v.get("p_id_to_aggregate_by", "")}


def export_case(cid, date, data_cols, targets, user_group=None, user_pid=None, functions=None):
    from _gettsim.functions_loader import load_aggregation_dict

    functions = functions if functions is not None else gs.env(date)[1]
    user_group = user_group or {}
    user_pid = user_pid or {}

    def rk(fn):
        info = getattr(fn, "__info__", None) or {}
        return info.get("params_key_for_rounding", "") or ""

    fns = [{"name": n, "args": sorted(gs_all_args(fn)), "round": rk(fn)} for n, fn in functions.items()]
    fno, fo = gs.function_table(date, data_cols, targets, functions, user_group, user_pid)
    obs = [{"name": n, "args": sorted(gs_all_args(fn)), "ov": False, "round": rk(fn)} for n, fn in fno.items()]
    obs += [{"name": n, "args": sorted(gs_all_args(fn)), "ov": True, "round": rk(fn)} for n, fn in fo.items()]
    return {
        "id": cid,
        "fns": fns,
        "bgrp": [spec(k, v) for k, v in load_aggregation_dict("aggregate_by_group").items()],
        "bpid": [spec(k, v) for k, v in load_aggregation_dict("aggregate_by_p_id").items()],
        "ugrp": [spec(k, v) for k, v in user_group.items()],
        "upid": [spec(k, v) for k, v in user_pid.items()],
        "data": sorted(data_cols),
        "targets": sorted(targets),
        "observed": obs,
    }


def gs_all_args(fn):
    import inspect

    return list(inspect.signature(fn).parameters)


def judge(cases, work, tag="d"):
    tf = f"{work}/derive_{tag}.json"
    of = f"{work}/derive_{tag}.out.json"
    tlc.write_json(tf, cases)
    r = tlc.run("Trace_Derive", "Trace_Derive.cfg", workdir=work, env={"TRACE_FILE": tf, "OUT_FILE": of}, timeout=3000)
    if r.violated:
        raise tlc.TLCFailure(f"Trace_Derive: {r.violated}\n{r.out[-1500:]}")
    return tlc.read_json(of), r
