"""Generate MANIFEST.json from the registry below (kept valid at all times)."""
import json
import sys
from pathlib import Path

sys.path.insert(0, str(Path(__file__).resolve().parent))
from registry import CHECKS, NOT_APPLICABLE  # noqa: E402

VERIF = Path(__file__).resolve().parent.parent
props = [json.loads(l) for l in (VERIF / "properties.jsonl").read_text(encoding="utf-8").splitlines() if l.strip()]
ids = [p["id"] for p in props]

checks = []
for pid in ids:
    if pid not in CHECKS:
        continue
    c = CHECKS[pid]
    checks.append(
        {
            "property_id": pid,
            "quick_cmd": f"./check {pid} --tier quick",
            "thorough_cmd": f"./check {pid} --tier thorough",
            "evidence_file": f"/verif/evidence/{pid}.json",
            "replay_cmd_template": f"./check {pid} --replay {{path}}",
            "engine": "tlc",
            "level_claimed": {"category": c["level"], "text": c["text"], "design_ref": c.get("design_ref", f"DESIGN.md §4 {pid}")},
            "level_note": c["note"],
            "technique": c["technique"],
        }
    )
na = [{"property_id": pid, "reason": NOT_APPLICABLE.get(pid, "check not built yet in this round; planned in DESIGN.md §4")} for pid in ids if pid not in CHECKS]
manifest = {
    "version": 1,
    "setup_cmd": "./setup.sh",
    "hooks": {
        "guard": "GETTSIM_VERIF",
        "enable": "checks import /repo/src at run time with GETTSIM_VERIF=1 in the environment; no build step",
        "baseline_off_cmd": "cd /repo && env -u GETTSIM_VERIF /venv/bin/python -m pytest -ra -q -p no:cacheprovider --timeout=900 --continue-on-collection-errors",
        "source_commits": [],
        "add_only": True,
    },
    "engines": [
        {
            "name": "tlc",
            "path": "/verif/spec",
            "serves_properties": [c["property_id"] for c in checks],
            "kind_free_text": "explicit TLA+ specifications model-checked with TLC; TLC-enumerated behaviours replayed into the implementation and traces recorded from the implementation validated by TLC trace specifications (harness in /verif/harness)",
        }
    ],
    "checks": checks,
    "not_applicable": na,
    "notes": "See DESIGN.md. Every verdict is computed by TLC from a TLA+ module under /verif/spec; Python only drives GETTSIM, records observations and converts formats.",
}
(VERIF / "MANIFEST.json").write_text(json.dumps(manifest, indent=1, ensure_ascii=False), encoding="utf-8")
try:
    import jsonschema

    jsonschema.validate(manifest, json.load(open("/root/.vp/MANIFEST.schema.json")))
    print("MANIFEST valid;", len(checks), "checks;", len(na), "not_applicable")
except ImportError:
    print("written (jsonschema unavailable)")
