"""Binding demonstrations (DESIGN §6): for each trace specification a small correct trace is accepted and the
same trace with ONE corrupted field is rejected at that event.  Run: /venv/bin/python harness/selftest.py"""
from __future__ import annotations

import copy
import json
import os
import sys

sys.path.insert(0, os.path.dirname(os.path.abspath(__file__)))
import numpy as np  # noqa: E402
import pandas as pd  # noqa: E402

import enc  # noqa: E402
import tables  # noqa: E402
import tlc  # noqa: E402
from common import VERIF, WORK  # noqa: E402
from enc import dec  # noqa: E402

work = WORK / "selftest"
work.mkdir(parents=True, exist_ok=True)
results = []


def judge(module, payload, extra_env=None):
    tf, of = work / f"{module}.json", work / f"{module}.out.json"
    tlc.write_json(tf, payload)
    env = {"TRACE_FILE": str(tf), "OUT_FILE": str(of)}
    env.update(extra_env or {})
    r = tlc.run(module, f"{module}.cfg", workdir=work, env=env, timeout=600)
    assert not r.violated, r.out[-800:]
    return tlc.read_json(of)["bad"]


def case(name, module, good, corrupt, extra_env=None):
    b0 = judge(module, good, extra_env)
    b1 = judge(module, corrupt(copy.deepcopy(good)), extra_env)
    ok = (len(b0) == 0) and (len(b1) >= 1)
    results.append({"trace_spec": module, "case": name, "accepted_clean": len(b0) == 0, "rejected_corrupted": len(b1) >= 1, "clauses": sorted({json.dumps(b, sort_keys=True)[:120] for b in b1})[:3]})
    print(("ok   " if ok else "FAIL ") + f"{module}: {name}")
    return ok


def main():
    allok = True
    # Trace_Perm: one value changed in the permuted run
    pool = enc.Pool()
    base = pd.DataFrame({"x_m": [1.5, 2.5, 3.5], "fg_id": [0, 0, 1]})
    perm = base.iloc[[2, 0, 1]].reset_index(drop=True)
    ev = [tables.table_event(pool, base, [10, 11, 12], list(base), colnames=list(base), tid=0, run=0), tables.table_event(pool, perm, [12, 10, 11], list(base), tid=0, run=1)]
    good = {"pool": pool.items, "events": ev}

    def c1(g):
        g["events"][1]["cells"][0][0] = g["events"][1]["cells"][1][0]
        return g

    allok &= case("value of one person changed under permutation", "Trace_Perm", good, c1)

    def c2(g):
        g["events"][1]["cells"][1][1] = g["events"][1]["cells"][0][1]
        g["events"][1]["cells"][2][1] = g["events"][0]["cells"][2][1]
        return g

    allok &= case("partition of fg_id changed", "Trace_Perm", good, c2)
    # Trace_Arith: sum, rounding, conversion
    tr_pool = enc.Pool()
    src = tr_pool.column(np.array([1.0, 2.0, 4.0]))
    obs = tr_pool.column(np.array([3.0, 3.0, 4.0]))
    xs = tr_pool.column(np.array([10.4, 7.0]))
    rs = tr_pool.column(np.array([11.0, 7.0]))
    ym = tr_pool.column(np.array([120.0, 84.0]))
    mm = tr_pool.column(np.array([10.0, 7.0]))
    good = {"pool": tr_pool.items, "events": [
        {"k": "agg", "node": "s_hh", "kind": "sum", "src": src, "ids": [5, 5, 9], "obs": obs},
        {"k": "round", "node": "r", "base": dec(1), "dir": "up", "off": dec(0), "x": xs, "r": rs, "kk": [dec(11), dec(7)]},
        {"k": "conv", "a": "y", "ua": "y", "xa": ym, "b": "m", "ub": "m", "xb": mm},
    ]}

    def c3(g):
        g["events"][0]["ids"] = [5, 9, 9]
        return g

    def c4(g):
        g["events"][1]["dir"] = "down"
        return g

    def c5(g):
        g["events"][2]["ub"] = "w"
        return g

    allok &= case("group membership changed", "Trace_Arith", good, c3)
    allok &= case("rounding direction swapped", "Trace_Arith", good, c4)
    allok &= case("wrong time unit", "Trace_Arith", good, c5)
    # Trace_Runs: reform leaking outside descendants
    rp = enc.Pool()
    b = pd.DataFrame({"a": [1.0, 2.0], "b": [3.0, 4.0], "c": [5.0, 6.0]})
    r2 = pd.DataFrame({"a": [1.0, 2.0], "b": [3.5, 4.5], "c": [5.0, 6.0]})
    dag = [{"n": "a", "a": ["x"], "r": ""}, {"n": "b", "a": ["a", "g_params"], "r": ""}, {"n": "c", "a": ["a"], "r": ""}]
    evs = [tables.table_event(rp, b, [0, 1], list(b), colnames=list(b), tid=0, run=0, rel="base", dag=dag), tables.table_event(rp, r2, [0, 1], list(b), colnames=list(b), tid=0, run=1, rel="reform", kind="params", id="g")]
    good = {"pool": rp.items, "events": evs}

    def c6(g):
        g["events"][1]["cells"][0][2] = g["events"][1]["cells"][0][1]
        return g

    allok &= case("reform changes a column that does not depend on the group", "Trace_Runs", good, c6)
    # Trace_History: digest differs from the reference; held object changed
    good = [{"k": "ref", "key": "k1", "digest": "aa"}, {"k": "call", "tid": 0, "pos": 2, "key": "k1", "digest": "aa", "exc": "", "before": "h", "after": "h"}]

    def c7(g):
        g[1]["digest"] = "bb"
        return g

    def c8(g):
        g[1]["after"] = "h2"
        return g

    allok &= case("result differs from the fresh-interpreter reference", "Trace_History", good, c7)
    allok &= case("caller's object modified", "Trace_History", good, c8)
    out = {"selftest": results, "all_ok": bool(allok)}
    (VERIF / "evidence").mkdir(exist_ok=True)
    (VERIF / "evidence" / "selftest.json").write_text(json.dumps(out, indent=1))
    return 0 if allok else 2


def run(tier="quick"):
    """Entry point for ./check selftest."""
    return main()


if __name__ == "__main__":
    sys.exit(main())
