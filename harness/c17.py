"""C17 — means-tested benefits are mutually exclusive as the priority rules say.

A  MC_Priority: exhaustive households of needs units on a small grid; exclusivity theorems on
   the specified decision functions.
B  every state replayed on the REAL rules: intermediate columns (need, income, Wohngeld and
   Kinderzuschlag entitlement, ALG II before priority, pensioner facts, bg_id) are supplied as
   data, the four benefits and wthh_id requested; pattern judged by TLC (Trace_Priority).
C  full-system runs: households with incomes swept across the break-even region, several needs
   units, pensioner mixes; per household the exclusivity invariants judged by TLC.
"""
from __future__ import annotations

import json
import random
from pathlib import Path

import numpy as np
import pandas as pd

import gs
import popgen
import tlaval
import tlc
from c04 import DATES
from common import Check, pool_map
from enc import dec

LEVEL = "model_checking"
DATE = "2023-01-01"


def replay_chunk(states):
    events = []
    for st in states:
        us = st["us"]
        n = len(us)
        if n == 0:
            continue
        df = pd.DataFrame({
            "p_id": np.arange(n, dtype=np.int64), "hh_id": np.zeros(n, dtype=np.int64), "bg_id": np.arange(n, dtype=np.int64) * 100,
            "arbeitsl_geld_2_regelbedarf_m_bg": [100.0 * u["N"] for u in us],
            "arbeitsl_geld_2_eink_m_bg": [100.0 * u["E"] for u in us],
            "wohngeld_anspruchshöhe_m_bg": [100.0 * u["W"] for u in us],
            "_kinderzuschl_nach_vermög_check_m_bg": [100.0 * u["K"] for u in us],
            "arbeitsl_geld_2_vor_vorrang_m_bg": [100.0 * u["V"] for u in us],
            "wohngeld_anspruchshöhe_m_wthh": [5.0] * n,
            "erwachsene_alle_rentner_hh": [bool(st["allr"])] * n,
            "anz_rentner_hh": [int(st["nr"])] * n,
        })
        try:
            res = gs.compute(df, DATE, targets=["arbeitsl_geld_2_m_bg", "kinderzuschl_m_bg", "wohngeld_m_wthh", "wthh_id"])
            obs = [{"alg2": bool(res["arbeitsl_geld_2_m_bg"].iloc[i] > 0), "kiz": bool(res["kinderzuschl_m_bg"].iloc[i] > 0), "wg": bool(res["wohngeld_m_wthh"].iloc[i] > 0), "part": int(res["wthh_id"].iloc[i])} for i in range(n)]
            events.append({"k": "replay", "us": us, "allr": bool(st["allr"]), "nr": int(st["nr"]), "obs": obs})
        except Exception as e:  # noqa: BLE001
            events.append({"k": "replay", "us": us, "allr": bool(st["allr"]), "nr": int(st["nr"]), "obs": [{"alg2": True, "kiz": True, "wg": True, "part": -1}] * n, "error": f"{type(e).__name__}: {str(e)[:100]}"})
    return events


def full_job(job):
    date, seed, tid = job
    rnd = random.Random(seed)
    kinds = ["family_2", "single_parent_2", "family_3", "patchwork", "self_sufficient_child", "three_gen", "couple_married", "single", "adult_child", "single_parent_1"]
    wage = rnd.choice([0.0, 300.0, 600.0, 900.0, 1200.0, 1500.0, 1800.0, 2100.0, 2400.0, 2800.0, 3300.0, 4000.0])
    rent = rnd.choice([300.0, 500.0, 700.0, 1000.0])
    structs = [popgen.CANON[rnd.choice(kinds)] for _ in range(rnd.choice([1, 2]))]
    pens = rnd.random() < 0.25
    prof = {
        "bruttolohn_m": lambda i, r, d, rr: (wage * rr.choice([0.0, 0.5, 1.0, 1.0])) if d["alter"] >= 18 and not pens else 0.0,
        "bruttokaltmiete_m_hh": rent, "vermögen_bedürft": 0.0, "eink_selbst_m": 0.0, "kapitaleink_brutto_m": 0.0, "eink_vermietung_m": 0.0, "sonstig_eink_m": 0.0,
        "arbeitsstunden_w": lambda i, r, d, rr: 38.0 if d["alter"] >= 18 else 0.0,
    }
    if pens:
        prof.update({"rentner": lambda i, r, d, rr: d["alter"] >= 25, "priv_rente_m": lambda i, r, d, rr: rr.choice([0.0, 200.0, 700.0]) if d["alter"] >= 25 else 0.0})
    else:
        prof.update({"rentner": False})
    P = popgen.compose(structs, date, rnd, profile=prof)
    if pens:
        for p in P:
            if p["alter"] >= 25:
                p["alter"] = max(p["alter"], 67)
                p["geburtsjahr"] = gs.year_of(date) - p["alter"]
                p["jahr_renteneintr"] = p["geburtsjahr"] + 65
    # everybody in one household so that several needs units share it
    if rnd.random() < 0.5:
        for p in P:
            p["hh_id"] = 0
        first = P[0]
        for p in P:
            for c in ("bruttokaltmiete_m_hh", "heizkosten_m_hh", "wohnfläche_hh", "bewohnt_eigentum_hh", "immobilie_baujahr_hh", "mietstufe", "wohnort_ost"):
                p[c] = first[c]
    df = gs.build_population(P, date)
    cols = ["arbeitsl_geld_2_m_bg", "wohngeld_m_wthh", "kinderzuschl_m_bg", "grunds_im_alter_m_eg", "bg_id", "wthh_id", "arbeitsl_geld_2_regelbedarf_m_bg", "arbeitsl_geld_2_eink_m_bg", "_kinderzuschl_nach_vermög_check_m_bg", "wohngeld_anspruchshöhe_m_bg"]
    info = {"tid": tid, "date": date, "persons": P, "wage": wage, "pens": pens}
    try:
        res = gs.compute(df, date, targets=cols)
    except Exception as e:  # noqa: BLE001
        info["error"] = f"{type(e).__name__}: {str(e)[:160]}"
        return info, []
    events = []
    for hh, idx in df.groupby("hh_id").indices.items():
        persons = []
        for i in idx:
            persons.append({
                "bg": int(res["bg_id"].iloc[i]), "wthh": int(res["wthh_id"].iloc[i]),
                "alg2": bool(res["arbeitsl_geld_2_m_bg"].iloc[i] > 0), "wg": bool(res["wohngeld_m_wthh"].iloc[i] > 0),
                "kiz": bool(res["kinderzuschl_m_bg"].iloc[i] > 0), "grunds": bool(res["grunds_im_alter_m_eg"].iloc[i] > 0),
                "need": dec(float(res["arbeitsl_geld_2_regelbedarf_m_bg"].iloc[i])), "eink": dec(float(res["arbeitsl_geld_2_eink_m_bg"].iloc[i])),
                "kizamt": dec(float(res["_kinderzuschl_nach_vermög_check_m_bg"].iloc[i])), "wgamt": dec(float(res["wohngeld_anspruchshöhe_m_bg"].iloc[i])),
            })
        events.append({"k": "hh", "persons": persons, "tid": tid, "hh": int(hh)})
    info["paid"] = {k: int((res[k] > 0).sum()) for k in cols[:4]}
    return info, events


def sweep_job(job):
    """Wage sweep of one household type with the unit's wealth placed inside the band in which the
    Kinderzuschlag is reduced but still paid (found on the real code by a first pass)."""
    date, kind, rent, seed, tid = job
    rnd = random.Random(seed)
    wages = [20.0 * k for k in range(0, 160)]
    P = []
    for k, w in enumerate(wages):
        prof = {
            "bruttolohn_m": (lambda ww: (lambda i, r, d, rr: ww if i == 1 else 0.0))(w), "bruttokaltmiete_m_hh": rent, "heizkosten_m_hh": 60.0, "wohnfläche_hh": 70.0,
            "vermögen_bedürft": 0.0, "eink_selbst_m": 0.0, "kapitaleink_brutto_m": 0.0, "eink_vermietung_m": 0.0, "sonstig_eink_m": 0.0, "rentner": False,
            "arbeitsstunden_w": lambda i, r, d, rr: 38.0 if i == 1 else 0.0, "priv_rente_m": 0.0, "kind_unterh_erhalt_m": 0.0, "kind_unterh_anspr_m": 0.0,
            "bewohnt_eigentum_hh": False, "mietstufe": 3, "wohnort_ost": False, "elterngeld_claimed": False, "in_priv_krankenv": False,
        }
        rr = random.Random(seed)      # the same household in every copy; only the wage differs
        Q = popgen.dress(popgen.CANON[kind], date, rr, pid_base=10 * k, hh_base=k, profile=prof)
        P += Q
    df = gs.build_population(P, date)
    cols = ["arbeitsl_geld_2_m_bg", "wohngeld_m_wthh", "kinderzuschl_m_bg", "grunds_im_alter_m_eg", "bg_id", "wthh_id", "arbeitsl_geld_2_regelbedarf_m_bg", "arbeitsl_geld_2_eink_m_bg", "_kinderzuschl_nach_vermög_check_m_bg", "wohngeld_anspruchshöhe_m_bg"]
    info = {"tid": tid, "date": date, "persons": P[: len(popgen.CANON[kind])], "wage": "sweep 0..3180 step 20", "pens": False, "kind": kind, "rent": rent}
    try:
        first = gs.compute(df, date, targets=["_kinderzuschl_vor_vermög_check_m_bg", "kinderzuschl_vermög_freib_bg", "bg_id"])
        freib = first["kinderzuschl_vermög_freib_bg"].to_numpy()
        kvor = first["_kinderzuschl_vor_vermög_check_m_bg"].to_numpy()
        adult = (df["alter"] >= 18).to_numpy() & (df["p_id"] % 10 == 0).to_numpy()
        df2 = df.copy()
        frac = rnd.choice([0.3, 0.5, 0.8])
        df2.loc[adult, "vermögen_bedürft"] = np.where(kvor[adult] > 0, freib[adult] + frac * kvor[adult], 0.0)
        res = gs.compute(df2, date, targets=cols)
    except Exception as e:  # noqa: BLE001
        info["error"] = f"{type(e).__name__}: {str(e)[:160]}"
        return info, []
    events = []
    for hh, idx in df2.groupby("hh_id").indices.items():
        persons = []
        for i in idx:
            persons.append({
                "bg": int(res["bg_id"].iloc[i]), "wthh": int(res["wthh_id"].iloc[i]),
                "alg2": bool(res["arbeitsl_geld_2_m_bg"].iloc[i] > 0), "wg": bool(res["wohngeld_m_wthh"].iloc[i] > 0),
                "kiz": bool(res["kinderzuschl_m_bg"].iloc[i] > 0), "grunds": bool(res["grunds_im_alter_m_eg"].iloc[i] > 0),
                "need": dec(float(res["arbeitsl_geld_2_regelbedarf_m_bg"].iloc[i])), "eink": dec(float(res["arbeitsl_geld_2_eink_m_bg"].iloc[i])),
                "kizamt": dec(float(res["_kinderzuschl_nach_vermög_check_m_bg"].iloc[i])), "wgamt": dec(float(res["wohngeld_anspruchshöhe_m_bg"].iloc[i])),
            })
        events.append({"k": "hh", "persons": persons, "tid": tid, "hh": int(hh)})
    info["paid"] = {k: int((res[k] > 0).sum()) for k in cols[:4]}
    info["reduced_kiz_households"] = int(((res["kinderzuschl_m_bg"] > 0) & (df2["vermögen_bedürft"] > 0)).sum())
    return info, events


def _full_dispatch(job):
    return sweep_job(job[1:]) if job[0] == "sweep" else full_job(job[1:])


def judge(events, work, tag):
    n = max(1, min(16, len(events) // 300))
    size = (len(events) + n - 1) // n
    jobs = []
    for k in range(n):
        ev = events[k * size : (k + 1) * size]
        if ev:
            tf = f"{work}/prio_{tag}_{k}.json"
            tlc.write_json(tf, ev)
            jobs.append((k * size, tf, f"{work}/prio_{tag}_{k}.out.json", str(work)))
    outs = pool_map(_judge_one, jobs, procs=len(jobs))
    bad, states = [], 0
    for (off, *_), (o, d) in zip(jobs, outs):
        states += d
        bad += [(off + b["e"] - 1, b["c"]) for b in o["bad"]]
    return bad, states


def _judge_one(job):
    off, tf, of, work = job
    r = tlc.run("Trace_Priority", "Trace_Priority.cfg", workdir=work, env={"TRACE_FILE": tf, "OUT_FILE": of}, timeout=3000)
    if r.violated:
        raise tlc.TLCFailure(f"Trace_Priority: {r.violated}\n{r.out[-1500:]}")
    return tlc.read_json(of), r.distinct


def run(tier):
    chk = Check("C17", tier, LEVEL)
    rnd = random.Random(chk.seed * 65537 + 17)
    quick = tier == "quick"
    dump = chk.work / "prio"
    res = tlc.run("MC_Priority", "MC_Priority.cfg", workdir=chk.work, workers=16, dump=dump, timeout=1800)
    if res.violated:
        chk.violation(f"C17|spec-theorem|{','.join(res.violated)}", "the specified priority rules are not exclusive", {"out": res.out[-2500:]})
        return chk.finish()
    chk.add_mc(res, "MC_Priority")
    states = [s for s in tlaval.read_dump(str(dump) + ".dump") if s.get("us") and (not s["allr"] or s["nr"] == 1)]
    Path(str(dump) + ".dump").unlink()
    singles = [s for s in states if len(s["us"]) == 1]
    doubles = [s for s in states if len(s["us"]) == 2]
    chosen = singles + rnd.sample(doubles, min(len(doubles), 600 if quick else 8000))
    chunks = [chosen[i::16] for i in range(16)]
    evs = [e for c in pool_map(replay_chunk, [c for c in chunks if c]) for e in c]
    chk.count(len(evs))
    bad, tstates = judge(evs, chk.work, "replay")
    chk.cov["traces_validated_against_impl"] += len(evs)
    seen = set()
    for idx, clause in bad:
        e = evs[idx]
        sig = f"C17|{clause}" + (f"|raised={e['error'][:40]}" if "error" in e else "")
        if sig in seen:
            continue
        seen.add(sig)
        chk.violation(sig, f"real rules disagree with the specified priority decision for units {e['us']} (all pensioners={e['allr']}, pensioners={e['nr']}): observed {e['obs']}", {"state": {k: e[k] for k in ("us", "allr", "nr")}, "obs": e["obs"], "error": e.get("error")})
    for e in evs:
        chk.distinct(json.dumps([e["us"], e["allr"], e["nr"]]))
    # ---- C: full system
    from c04 import change_dates_for

    dates = change_dates_for(rnd, quick, 2, nreg=1)      # thorough: every change date 2015-2025 outside 2017H1
    njobs = 48 if quick else 40 * len(dates)
    fjobs = [("full", dates[t % len(dates)], rnd.randrange(1 << 30), t) for t in range(njobs)]
    t = njobs
    for d in (dates[:2] if quick else dates[::2]):
        for kind in (["single_parent_1", "family_2"] if quick else ["single_parent_1", "single_parent_2", "family_2", "family_3"]):
            for rent in ([500.0] if quick else [350.0, 600.0, 900.0]):
                fjobs.append(("sweep", d, kind, rent, rnd.randrange(1 << 30), t))
                t += 1
    outs = pool_map(_full_dispatch, fjobs)
    hh_events, owner = [], []
    paid = {}
    for info, events in outs:
        if "error" in info:
            chk.notes.setdefault("full_run_errors", []).append(f"{info['date']}: {info['error'][:80]}")
            continue
        for k, v in info["paid"].items():
            paid[k] = paid.get(k, 0) + v
        if "reduced_kiz_households" in info:
            chk.notes["persons_with_wealth_reduced_kinderzuschlag"] = chk.notes.get("persons_with_wealth_reduced_kinderzuschlag", 0) + info["reduced_kiz_households"]
        for e in events:
            hh_events.append(e)
            owner.append(info)
    chk.count(len(hh_events))
    bad2, tstates2 = judge(hh_events, chk.work, "full")
    chk.cov["traces_validated_against_impl"] += len(hh_events)
    chk.notes.update({"trace_tlc_states": tstates + tstates2, "persons_paid": paid, "dates": dates})
    if min(paid.get(k, 0) for k in ("arbeitsl_geld_2_m_bg", "wohngeld_m_wthh", "kinderzuschl_m_bg", "grunds_im_alter_m_eg")) == 0:
        chk.notes["vacuity_warning"] = "one of the four benefits was never paid in the full-system runs of this seed"
    seen = set()
    for idx, clause in bad2:
        info = owner[idx]
        sig = f"C17|{clause}|date={info['date']}"
        if sig in seen:
            continue
        seen.add(sig)
        chk.violation(sig, f"{clause} in a full simulation at {info['date']}", {"date": info["date"], "persons": info["persons"], "household": hh_events[idx]["persons"]})
    chk.sample({"replayed_state": evs[0]["us"], "observed": evs[0]["obs"]})
    chk.sample({"full_run": {"date": owner[0]["date"], "wage": owner[0]["wage"], "persons": len(owner[0]["persons"])}} if owner else {})
    chk.cov["rule"] = (
        "replay: every MC_Priority state with one needs unit and a seeded sample of the two-unit states through the real benefit_checks / arbeitsl_geld_2_m_bg / kinderzuschl_m_bg / wohngeld_m_wthh / wthh_id rules with intermediates supplied as data; "
        "full system: dressed households (10 structure kinds, wages on a grid across the break-even region, rents, shared households with several needs units, pensioner mixes) at several dates, per household the exclusivity invariants; "
        "distinct_nontrivial = distinct replayed states"
    )
    chk.assumptions += ["amounts on the grid are multiples of 100 EUR", "the Wohngeld entitlement of a part-household is supplied as a positive constant in the replay (only the paid / not-paid pattern and the part-household partition are compared)"]
    return chk.finish()


def replay(path):
    case = json.load(open(path))["case"]
    if "state" in case:
        ev = replay_chunk([case["state"]])
        print(ev[0]["obs"], ev[0].get("error"))
    return run("quick")
