"""Static parameter reads of a rule: constant first-level subscripts on `<group>_params` arguments (followed one
level into helper functions of the same module that receive the dictionary).  Candidate generator for C08."""
from __future__ import annotations

import ast
import inspect
import textwrap


def _subscript_roots(tree, rootname):
    out = set()
    for node in ast.walk(tree):
        if isinstance(node, ast.Subscript):
            v = node.value
            if isinstance(v, ast.Name) and v.id == rootname and isinstance(node.slice, ast.Constant) and isinstance(node.slice.value, (str, int)):
                out.add(node.slice.value)
    return out


def reads_of(f):
    """set of (group, key) read with a constant key by rule f."""
    try:
        src = textwrap.dedent(inspect.getsource(f))
        tree = ast.parse(src)
    except (OSError, TypeError, SyntaxError):
        return set()
    mod = inspect.getmodule(f)
    out = set()
    params = [a for a in inspect.signature(f).parameters if a.endswith("_params")]
    for p in params:
        g = p[: -len("_params")]
        for k in _subscript_roots(tree, p):
            out.add((g, str(k)))
        # helpers of the same module that are handed the dictionary
        for node in ast.walk(tree):
            if isinstance(node, ast.Call) and isinstance(node.func, ast.Name) and mod is not None and hasattr(mod, node.func.id):
                h = getattr(mod, node.func.id)
                if not inspect.isfunction(h):
                    continue
                try:
                    hs = list(inspect.signature(h).parameters)
                    htree = ast.parse(textwrap.dedent(inspect.getsource(h)))
                except (OSError, TypeError, SyntaxError, ValueError):
                    continue
                for i, a in enumerate(node.args):
                    if isinstance(a, ast.Name) and a.id == p and i < len(hs):
                        for k in _subscript_roots(htree, hs[i]):
                            out.add((g, str(k)))
                for kw in node.keywords:
                    if isinstance(kw.value, ast.Name) and kw.value.id == p and kw.arg in hs:
                        for k in _subscript_roots(htree, kw.arg):
                            out.add((g, str(k)))
    return out
