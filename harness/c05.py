"""C05 — supplying a computed column as data is equivalent to computing it.

A  MC_Dag: substitution lemma on the specified pipeline over a small name universe.
C  real rule base: for (a sample of / all) nodes n, a second run with data + {n: base[n]} is
   validated by TLC (Trace_Runs relation `override`): n announced by the overlap warning, every
   other column identical (1e-9 for descendants of other time units of n's flow).
"""
from __future__ import annotations

import json
import random

import numpy as np

import gs
import runs
from c04 import DATES, make_population
from common import Check, pool_map

LEVEL = "model_checking"


def rich_population(date, rnd):
    """A population in which counts >= 2 occur (several children, two pensioners, two claimants)."""
    import popgen

    names = list(popgen.CANON)
    structs = [popgen.CANON["family_3"], popgen.CANON[rnd.choice(["single_parent_2", "patchwork", "self_sufficient_child"])], popgen.CANON[rnd.choice(names)]]
    prof = {"rentner": lambda i, r, d, rnd: d["alter"] >= 60, "elterngeld_claimed": lambda i, r, d, rnd: d["alter"] >= 25 and d["alter"] < 50}
    P = popgen.compose(structs, date, rnd, sparse=rnd.random() < 0.5, profile=prof)
    # an elderly couple living with the family (two pensioners in one household)
    return gs.build_population(P, date), P


def job(j):
    date, seed, tid, nnodes, work, off, stride = j[:7]
    only = set(j[7]) if len(j) > 7 else None      # regime-date jobs: only the nodes whose rule version differs from the 2023 one
    rnd = random.Random(seed)
    df, P = rich_population(date, rnd)
    info = {"tid": tid, "date": date, "n": len(df), "persons": P, "runs": [], "errors": []}
    nodes, args = runs.nonderived_nodes(date, df)
    try:
        base, excluded = gs.compute_all(df, date, targets=nodes, rounding=True)
    except Exception as e:  # noqa: BLE001
        info["base_error"] = f"{type(e).__name__}: {str(e)[:200]}"
        return info
    cols = list(base.columns)
    dag = runs.dag_export(date, list(df))
    tr = runs.RunTrace(work, f"c05_{tid}")
    tr.base(tid, base, cols, dag)
    dt = [t for t in gs.default_targets() if t in cols]
    # every node of the DAG is overridden once per pass: job t takes every njobs-th node (offset t)
    has_desc = {a for n in cols for a in args.get(n, []) if a in cols}
    allnodes = sorted(c for c in cols if only is None or c in only)
    chosen = allnodes[off::stride][:nnodes]
    seen = set()
    k = 0
    for n in chosen:
        if n in seen:
            continue
        seen.add(n)
        k += 1
        d2 = df.copy()
        d2[n] = base[n].to_numpy()
        targets = [c for c in cols if c != n]
        try:
            res, warned, conv, other = runs.compute_warn(d2, date, targets=targets)
        except Exception as e:  # noqa: BLE001
            info["errors"].append({"run": k, "node": n, "error": f"{type(e).__name__}: {str(e)[:160]}"})
            continue
        tr.run(tid, k, "override", res, list(res.columns), node=n, warned=warned)
        info["runs"].append({"run": k, "node": n, "nontrivial": n in has_desc})
        # the same values in another, losslessly convertible dtype (an int or bool column read back as float64): the supplied
        # column is converted to the rule's type, so nothing may raise and nothing may change
        if base[n].dtype.kind in "ib" and k % 2 == 0:
            k += 1
            d3 = df.copy()
            d3[n] = base[n].to_numpy().astype(np.float64)
            try:
                res3, warned3, conv3, other3 = runs.compute_warn(d3, date, targets=targets)
            except Exception as e:  # noqa: BLE001
                info["errors"].append({"run": k, "node": n, "as": "float64", "error": f"{type(e).__name__}: {str(e)[:160]}"})
                continue
            tr.run(tid, k, "override", res3, list(res3.columns), node=n, warned=warned3)
            info["runs"].append({"run": k, "node": n, "nontrivial": n in has_desc, "as": "float64"})
    out = tr.judge()
    info["bad"] = out["bad"]
    info["tlc_states"] = out["tlc_states"]
    info["ncols"] = len(cols)
    return info


def supplied_rounded_probe(chk, dates):
    """A supplied column is used in place of its computation -- as it is.  For every rule with a rounding specification and a
    time suffix, on-grid amounts (among them amounts that a second floor/ceil onto the grid would move by one step in floating
    point) are supplied for the rule and its other time unit is requested: it must be the supplied column times the factor."""
    import arith
    import popgen

    tr = arith.ArithTrace()
    n_ev = 0
    for date in dates:
        params, functions = gs.env(date)
        df = gs.build_population(popgen.rich_core(date, random.Random(5)), date)
        for g, grp in params.items():
            for name, spec in (grp.get("rounding") or {}).items():
                if name not in functions or name[-2:] not in ("_m", "_y") or not isinstance(spec, dict) or "base" not in spec:
                    continue
                base = float(spec["base"])
                ks = [k for k in range(30000, 200000, 7) if base * np.floor((k * base) / base) != k * base or base * np.ceil((k * base) / base) != k * base][:12]
                vals = [k * base for k in ks] + [300.0, 1234.5, 0.0]
                x = np.array([vals[i % len(vals)] for i in range(len(df))], dtype=float)
                sib = name[:-1] + ("y" if name.endswith("m") else "m")
                d2 = df.copy()
                d2[name] = x
                try:
                    res = gs.compute(d2, date, targets=[sib])
                except Exception as e:  # noqa: BLE001
                    chk.notes.setdefault("supplied_rounded_probe_errors", []).append(f"{date}:{name}: {type(e).__name__}: {str(e)[:80]}")
                    continue
                tr.add({"k": "conv", "a": sib, "ua": sib[-1], "xa": tr.cells(res[sib].to_numpy().astype(float)), "b": name, "ub": name[-1], "xb": tr.cells(x)},
                       {"via": "supplied-rounded-rule", "node": sib, "src": name, "date": date, "base": base, "direction": spec.get("direction")})
                n_ev += 1
    bad, states = arith.judge([tr], chk.work, "c05probe")
    chk.count(n_ev)
    chk.cov["traces_validated_against_impl"] += n_ev
    chk.notes["supplied_rounded_rules_probed"] = n_ev
    seen = set()
    for meta, clause in bad:
        sig = f"C05|supplied-column-altered|node={meta['src']}"
        if sig not in seen:
            seen.add(sig)
            chk.violation(sig, f"{meta['src']} supplied as data (on-grid amounts): {meta['node']} is not the supplied column times the unit factor at {meta['date']} (the supplied column was changed before use)", meta)


def run(tier):
    chk = Check("C05", tier, LEVEL)
    rnd = random.Random(chk.seed * 65537 + 5)
    quick = tier == "quick"
    import mc_dag

    mc_dag.run_mc(chk, quick, which="C05")
    dates = ["2023-01-01"] + rnd.sample([d for d in DATES if d != "2023-01-01"], 1 if quick else len(DATES) - 1)
    stride = 16
    passes = 1 if quick else 6
    jobs = []
    for p_ in range(passes):
        for t in range(stride):
            jobs.append((dates[(t + p_) % len(dates)] if not quick else dates[t % 4 == 3], rnd.randrange(1 << 30), p_ * stride + t, 60, str(chk.work), t, stride))
    # ---- dated rule versions that are not in force on 2023-01-01: overridden on a regime date on which they are
    import c04

    ref = {n: getattr(f, "__name__", n) for n, f in gs.env("2023-01-01")[1].items()}
    regs = [d for d in gs.regime_dates("2009-01-01", "2025-12-31") if not ("2017-01-01" <= d <= "2017-06-30")]
    if quick:
        regs = [regs[(chk.seed + i) % len(regs)] for i in range(2)]
    tid0 = len(jobs)
    versions = {}
    for d_ in regs:
        diff = sorted(n for n, f in gs.env(d_)[1].items() if ref.get(n) != getattr(f, "__name__", n))
        versions[d_] = len(diff)
        nj = max(1, min(4, len(diff) // 12))
        for t in range(nj):
            jobs.append((d_, rnd.randrange(1 << 30), tid0, 40, str(chk.work), t, nj, tuple(diff)))
            tid0 += 1
    chk.notes["rule_versions_not_in_force_2023"] = versions
    jobs.sort(key=lambda j_: (j_[0], j_[2]))
    outs = pool_map(job, jobs)
    nodes_done = set()
    for info in outs:
        if "base_error" in info:
            chk.notes.setdefault("base_errors", []).append({k: info[k] for k in ("date", "base_error")})
            continue
        chk.count(len(info["runs"]) + 1)
        chk.cov["traces_validated_against_impl"] += 1
        chk.notes["trace_tlc_states"] = chk.notes.get("trace_tlc_states", 0) + info["tlc_states"]
        byrun = {r["run"]: r for r in info["runs"]}
        for r in info["runs"]:
            if r["nontrivial"]:
                chk.distinct(f"{info['date']}:{r['node']}")
            nodes_done.add(r["node"])
        for e in info["errors"]:
            chk.violation(f"C05|raised|node={e['node']}" + (f"|as={e['as']}" if "as" in e else "") + f"|{e['error'][:40]}", "supplying a computed column as data raised", {"date": info["date"], "persons": info["persons"], **e})
        seen = set()
        for b in info["bad"]:
            node = byrun.get(b["run"], {}).get("node")
            key = (node, b["c"])
            if key in seen:
                continue
            seen.add(key)
            chk.violation(
                f"C05|{b['c']}|supplied={node}",
                f"supplying the computed column {node} as data: {b['c']} at {b['col']} (date {info['date']})",
                {"date": info["date"], "persons": info["persons"], "node": node, "col": b["col"], "clause": b["c"]},
            )
        chk.sample({"date": info["date"], "persons": info["n"], "overridden": [r["node"] for r in info["runs"][:8]]})
    supplied_rounded_probe(chk, ["2023-01-01"] + [d for d in dates if d != "2023-01-01"][:2])
    chk.notes["distinct_nodes_overridden"] = len(nodes_done)
    chk.cov["rule"] = (
        "per population: base run with all non-time-derived nodes; for seeded nodes n (those with descendants among the targets preferred) a second run with n's computed "
        "column added to the data and all other nodes as targets; distinct_nontrivial = distinct (date, node) overrides of nodes that have descendants among the targets"
    )
    chk.assumptions += [
        "the supplied column itself is not requested as a target (doing so raises MissingFunctionsError on the pinned tree; see DESIGN.md F8)",
        "bit-identical except descendants of another time unit of the supplied flow (1e-9 relative)",
    ]
    chk.notes["dates"] = dates
    return chk.finish()


def replay(path):
    case = json.load(open(path))["case"]
    chk = Check("C05", "quick", LEVEL)
    date = case["date"]
    df = gs.build_population(case["persons"], date)
    nodes, _ = runs.nonderived_nodes(date, df)
    base, _ = gs.compute_all(df, date, targets=nodes)
    cols = list(base.columns)
    tr = runs.RunTrace(str(chk.work), "replay")
    tr.base(0, base, cols, runs.dag_export(date, list(df)))
    n = case["node"]
    d2 = df.copy()
    d2[n] = base[n].to_numpy().astype(np.float64) if case.get("as") == "float64" else base[n].to_numpy()
    try:
        res, warned, conv, other = runs.compute_warn(d2, date, targets=[c for c in cols if c != n])
    except Exception as e:  # noqa: BLE001
        print("raised:", type(e).__name__, str(e)[:200])
        return 1
    tr.run(0, 1, "override", res, list(res.columns), node=n, warned=warned)
    out = tr.judge()
    print("bad:", out["bad"][:10])
    return 1 if out["bad"] else 0
