"""C09 — rewriting a rule into array form preserves its meaning.

A  MC_Vec: TLC enumerates programs of the documented restricted style, applies the rewrite AS
   IMPLEMENTED (Vec.tla Visit) and compares a scalar with an array semantics (VecSem.tla).
B  every enumerated program is rendered to Python and goes through the real make_vectorizable:
   outcome and values must be what TLC computed for Visit (binds Visit and both semantics).
C  every internal rule: real output AST = Visit(original AST); array form on arrays vs the
   original on every row; purity of make_vectorizable (module namespace, registry).
"""
from __future__ import annotations

import ast
import json
import random

import numpy as np

import gs
import tlc
import vec
from common import Check, pool_map

LEVEL = "translation_validation"


def rule_job(job):
    pyname, seed, nrows, do_values = job
    import inspect

    from _gettsim.functions_loader import load_internal_functions
    from _gettsim.shared import TIME_DEPENDENT_FUNCTIONS
    from _gettsim.vectorization import TranslateToVectorizableError, make_vectorizable, make_vectorizable_source

    rnd = random.Random(seed)
    f = load_internal_functions()[pyname]
    events = []
    meta = {"fn": pyname, "module": f.__module__}
    ev = {"k": "rewrite", "name": pyname, "orig": vec.enc_ast(vec.func_ast(f)), "new": vec.enc_ast([]), "err": ""}
    try:
        ev["new"] = vec.enc_ast(ast.parse(make_vectorizable_source(f, "numpy")).body[0])
    except TranslateToVectorizableError as e:
        ev["err"] = type(e).__name__
    except Exception as e:  # noqa: BLE001
        ev["err"] = "other:" + type(e).__name__
    events.append(ev)
    info = getattr(f, "__info__", {}) or {}
    if not do_values or info.get("skip_vectorization"):
        return meta, events, {"rows": 0}
    date = vec.pick_date(f)
    params = gs.env(date)[0]
    sig = inspect.signature(f)
    ann = getattr(f, "__annotations__", {})
    names = list(sig.parameters)
    pargs = {a: params.get(a[:-7], {}) for a in names if a.endswith("_params")}
    dargs = [a for a in names if not a.endswith("_params")]
    rows, scal = [], []
    tries = 0
    while len(rows) < nrows and tries < nrows * 6:
        tries += 1
        row = {a: vec.draw(a, ann.get(a), rnd) for a in dargs}
        try:
            out = f(**row, **pargs)
        except Exception:  # noqa: BLE001
            continue
        rows.append(row)
        scal.append(out)
    stats = {"rows": len(rows), "date": date}
    if len(rows) < 2:
        return meta, events, stats
    # purity: namespace of the defining module and the registry before / after
    mod = inspect.getmodule(f)

    def digest():
        # the statement names the original function and its module; the decorator registry in
        # _gettsim.shared (which grows when a decorated definition is re-executed) is recorded
        # separately as an observation, it does not feed any simulation
        d = sorted((k, id(v)) for k, v in vars(mod).items() if not k.startswith("__"))
        attrs = sorted((k, repr(v)) for k, v in f.__dict__.items() if k != "__wrapped__")   # incl. the contents of __info__ (dates, dag name, rounding key, skip_vectorization)
        return json.dumps([d, id(f.__code__), attrs, repr(sorted(getattr(f, "__annotations__", {}).items(), key=str)), repr(f.__defaults__), repr(f.__kwdefaults__), f.__name__, f.__qualname__, hash(f.__doc__)])

    before = digest()
    aerr = ""
    arr = []
    try:
        vf = make_vectorizable(f, "numpy")
        cols = {a: np.array([r[a] for r in rows]) for a in dargs}
        out = vf(**cols, **pargs)
        out = np.asarray(out)
        if out.ndim == 0:
            out = np.broadcast_to(out, (len(rows),))
        arr = [vec.canon(x) for x in out.tolist()] if out.dtype.kind != "M" else [vec.canon(x) for x in out]
    except Exception as e:  # noqa: BLE001
        aerr = type(e).__name__
    after = digest()
    events.append({"k": "purity", "name": pyname, "before": before, "after": after})
    events.append({"k": "values", "name": pyname, "scalar": [vec.canon(x) for x in scal], "array": arr, "aerr": aerr})
    stats["aerr"] = aerr
    stats["sample_row"] = {k: str(v) for k, v in rows[0].items()}
    return meta, events, stats


def judge(events, work, tag):
    n = max(1, min(16, len(events) // 40))
    size = (len(events) + n - 1) // n
    jobs = []
    for k in range(n):
        ev = events[k * size : (k + 1) * size]
        if ev:
            tf = f"{work}/vec_{tag}_{k}.json"
            tlc.write_json(tf, ev)
            jobs.append((k * size, tf, f"{work}/vec_{tag}_{k}.out.json", str(work)))
    outs = pool_map(_judge_one, jobs, procs=len(jobs))
    bad = []
    states = 0
    for (off, *_), (o, d) in zip(jobs, outs):
        states += d
        for b in o["bad"]:
            bad.append((off + b["e"] - 1, b["c"]))
    return bad, states


def _judge_one(job):
    off, tf, of, work = job
    r = tlc.run("Trace_Vec", "Trace_Vec.cfg", workdir=work, env={"TRACE_FILE": tf, "OUT_FILE": of}, timeout=3000)
    if r.violated:
        raise tlc.TLCFailure(f"Trace_Vec: {r.violated}\n{r.out[-1500:]}")
    return tlc.read_json(of), r.distinct


def run(tier):
    from _gettsim.functions_loader import load_internal_functions

    chk = Check("C09", tier, LEVEL)
    rnd = random.Random(chk.seed * 65537 + 9)
    quick = tier == "quick"
    import mc_vec

    mc_vec.run_mc(chk, quick, rnd)
    names = sorted(load_internal_functions())
    nrows = 16 if quick else 64
    jobs = [(n, rnd.randrange(1 << 30), nrows, True) for n in names]
    outs = pool_map(rule_job, jobs, chunksize=4)
    events, owner = [], []
    programs = 0
    valued = 0
    for meta, evs, stats in outs:
        programs += 1
        for e in evs:
            events.append(e)
            owner.append((meta, stats))
        if stats.get("rows", 0) >= 2:
            valued += 1
            chk.distinct(meta["fn"])
    chk.count(len(events))
    bad, states = judge(events, chk.work, "rules")
    chk.notes["trace_tlc_states"] = states
    chk.cov["programs"] = chk.cov.get("programs", 0) + programs
    chk.cov["disagreements_checked"] = chk.cov.get("disagreements_checked", 0) + len(bad)
    chk.cov["traces_validated_against_impl"] += len(events)
    chk.notes["rules_with_values_compared"] = valued
    structural = []
    for idx, clause in bad:
        meta, stats = owner[idx]
        if clause.startswith("rewrite:"):
            structural.append((meta["fn"], clause))
            continue
        e = events[idx]
        case = {"fn": meta["fn"], "module": meta["module"], "clause": clause, "date": stats.get("date"), "sample_row": stats.get("sample_row")}
        if clause.startswith("values"):
            diff = [i for i, (a, b) in enumerate(zip(e["scalar"], e["array"])) if a != b]
            case["differing_rows"] = len(diff)
            case["example"] = {"scalar": e["scalar"][diff[0]], "array": e["array"][diff[0]]} if diff else None
        chk.violation(f"C09|{clause}|fn={meta['fn']}", f"{meta['fn']}: array form {'silently returns other numbers than the scalar rule' if clause.startswith('values') else 'is not pure'}", case)
    # structural divergence of the transformer from Vec.tla is a divergence, not a violation (DESIGN 3.5)
    chk.notes["structural_divergences"] = structural[:20]
    chk.sample({"rule": owner[0][0]["fn"], "events": ["rewrite", "purity", "values"], "rows": owner[0][1].get("rows")})
    chk.cov["rule"] = (
        "programs = internal rules (all validity periods) + MC_Vec programs; per rule: transformer output vs Visit (structural), array form on seeded argument arrays vs the scalar rule per row "
        "(real parameters of a date in the rule's validity period), purity digests; distinct_nontrivial = rules whose values were compared on >= 2 rows"
    )
    chk.assumptions += ["values compared as exact rationals (type-insensitive: 0 == 0.0 == False)", "rows on which the scalar rule itself raises are discarded", "a loud failure of the array form (exception) satisfies the property"]
    return chk.finish()


def replay(path):
    case = json.load(open(path))["case"]
    chk = Check("C09", "quick", LEVEL)
    if "fn" in case:
        meta, evs, stats = rule_job((case["fn"], 1, 32, True))
        bad, _ = judge(evs, chk.work, "replay")
        print([(evs[i]["k"], c) for i, c in bad])
        return 1 if any(not c.startswith("rewrite") for _, c in bad) else 0
    return 0
