"""Parser for TLA+ values as TLC prints them (-dump files, -simulate behaviour files, PrintT)."""
from __future__ import annotations

import re


class _P:
    def __init__(self, s):
        self.s = s
        self.i = 0

    def ws(self):
        s = self.s
        n = len(s)
        while self.i < n and s[self.i] in " \t\r\n":
            self.i += 1

    def peek(self, k=1):
        return self.s[self.i : self.i + k]

    def expect(self, t):
        self.ws()
        if not self.s.startswith(t, self.i):
            raise ValueError(f"expected {t!r} at {self.i}: {self.s[self.i:self.i+40]!r}")
        self.i += len(t)

    def value(self):
        self.ws()
        c = self.peek()
        if c == "<" and self.peek(2) == "<<":
            self.i += 2
            items = self.items(">>")
            return tuple(items)
        if c == "{":
            self.i += 1
            items = self.items("}")
            return frozenset(items) if all(_hashable(x) for x in items) else list(items)
        if c == "[":
            self.i += 1
            d = {}
            self.ws()
            if self.peek() == "]":
                self.i += 1
                return d
            while True:
                self.ws()
                m = re.compile(r"[A-Za-z_0-9äöüÄÖÜß]+").match(self.s, self.i)
                k = m.group(0)
                self.i = m.end()
                self.expect("|->")
                d[k] = self.value()
                self.ws()
                if self.peek() == ",":
                    self.i += 1
                    continue
                self.expect("]")
                return d
        if c == "(":
            # function (a :> 1 @@ b :> 2)
            self.i += 1
            d = {}
            while True:
                k = self.value()
                self.expect(":>")
                v = self.value()
                d[k] = v
                self.ws()
                if self.peek(2) == "@@":
                    self.i += 2
                    continue
                self.expect(")")
                return d
        if c == '"':
            j = self.i + 1
            out = []
            s = self.s
            while s[j] != '"':
                if s[j] == "\\":
                    j += 1
                    out.append({"n": "\n", "t": "\t"}.get(s[j], s[j]))
                else:
                    out.append(s[j])
                j += 1
            self.i = j + 1
            return "".join(out)
        m = re.compile(r"-?\d+").match(self.s, self.i)
        if m:
            self.i = m.end()
            v = int(m.group(0))
            self.ws()
            if self.peek(2) == "..":
                self.i += 2
                hi = self.value()
                return tuple(range(v, hi + 1))
            return v
        m = re.compile(r"[A-Za-z_][A-Za-z_0-9]*").match(self.s, self.i)
        if m:
            self.i = m.end()
            w = m.group(0)
            if w == "TRUE":
                return True
            if w == "FALSE":
                return False
            return w
        raise ValueError(f"cannot parse at {self.i}: {self.s[self.i:self.i+40]!r}")

    def items(self, close):
        out = []
        self.ws()
        if self.s.startswith(close, self.i):
            self.i += len(close)
            return out
        while True:
            out.append(self.value())
            self.ws()
            if self.peek() == ",":
                self.i += 1
                continue
            self.expect(close)
            return out


def _hashable(x):
    try:
        hash(x)
        return True
    except TypeError:
        return False


def parse(s: str):
    p = _P(s)
    v = p.value()
    return v


def _fast(s: str):
    """Values made of records, sequences, ints, booleans and strings only -> via json (fast)."""
    import json

    if "{" in s or ":>" in s or ".." in s:
        return None
    t = re.sub(r"\[\s*([A-Za-z_0-9äöüÄÖÜß]+) \|->", r'{"\1":', s)
    t = re.sub(r",\s*([A-Za-z_0-9äöüÄÖÜß]+) \|->", r',"\1":', t)
    t = t.replace("]", "}").replace("<<", "[").replace(">>", "]")
    t = re.sub(r"\bTRUE\b", "true", t)
    t = re.sub(r"\bFALSE\b", "false", t)
    try:
        return json.loads(t)
    except ValueError:
        return None


def parse_fast(s: str):
    v = _fast(s)
    return parse(s) if v is None else v


def parse_state(block: str) -> dict:
    """`/\\ x = v` conjunct list -> dict."""
    out = {}
    if not block.lstrip().startswith("/\\"):
        m = re.match(r"\s*([A-Za-z_][A-Za-z_0-9]*) = ", block)
        if m:
            out[m.group(1)] = parse_fast(block[m.end():])
        return out
    parts = re.split(r"(?m)^/\\ ", block)
    for part in parts:
        part = part.strip()
        if not part:
            continue
        m = re.match(r"([A-Za-z_][A-Za-z_0-9]*) = ", part)
        if not m:
            continue
        out[m.group(1)] = parse_fast(part[m.end() :])
    return out


def read_dump(path):
    """All states of a TLC -dump file."""
    text = open(path, encoding="utf-8").read()
    blocks = re.split(r"(?m)^State \d+:\s*$", text)
    # TLC writes the states in the order its workers find them, which differs from run to run: sort the blocks by their
    # text so that seeded samples of the states are reproducible
    return [parse_state(b) for b in sorted(b.strip() for b in blocks if b.strip())]


def read_behaviour(path):
    """States of one -simulate file=… behaviour file: list of (action, state)."""
    text = open(path, encoding="utf-8").read()
    out = []
    for m in re.finditer(r"(?ms)^\\\* <?(\w+)[^\n]*\n(?:STATE_\d+ ==\s*\n)?(.*?)(?=^\\\* |^====|\Z)", text):
        act = m.group(1)
        st = parse_state(m.group(2))
        if st:
            out.append((act, st))
    return out
