"""Access to the GETTSIM implementation under test (imports /repo/src at run time).

Everything here only *drives* the implementation and records what it did; no property is
decided in this file.
"""
from __future__ import annotations

import datetime
import functools
import os
import sys
import warnings

warnings.filterwarnings("ignore")
REPO_SRC = os.environ.get("VERIF_REPO_SRC", "/repo/src")
if REPO_SRC not in sys.path:
    sys.path.insert(0, REPO_SRC)
os.environ.setdefault("GETTSIM_VERIF", "1")

import numpy as np  # noqa: E402
import pandas as pd  # noqa: E402


def _imports():
    import _gettsim.config as config
    import _gettsim.functions_loader as fl
    import _gettsim.interface as interface
    import _gettsim.policy_environment as pe

    return config, fl, interface, pe


@functools.lru_cache(maxsize=64)
def env(date: str):
    """(params, functions) for an ISO date; cached per process (owned by the harness)."""
    _, _, _, pe = _imports()
    return pe.set_up_policy_environment(date)


def fresh_env(date: str):
    _, _, _, pe = _imports()
    return pe.set_up_policy_environment(date)


def compute(data, date=None, params=None, functions=None, **kw):
    _, _, interface, _ = _imports()
    if params is None or functions is None:
        p, f = env(date)
        params = p if params is None else params
        functions = f if functions is None else functions
    with warnings.catch_warnings():
        warnings.simplefilter("ignore")
        return interface.compute_taxes_and_transfers(
            data=data, params=params, functions=functions, **kw
        )


def input_types():
    config, _, _, _ = _imports()
    return dict(config.TYPES_INPUT_VARIABLES)


def default_targets():
    config, _, _, _ = _imports()
    return list(config.DEFAULT_TARGETS)


def function_table(date, data_cols, targets, functions=None, group_specs=None, pid_specs=None):
    """The function table exactly as `compute_taxes_and_transfers` builds it."""
    _, fl, _, _ = _imports()
    if functions is None:
        functions = env(date)[1]
    import re

    targets = list(targets)
    for _ in range(6):
        try:
            return fl.load_and_check_functions(
                functions_raw=functions,
                targets=targets,
                data_cols=list(data_cols),
                aggregate_by_group_specs=group_specs or {},
                aggregate_by_p_id_specs=pid_specs or {},
            )
        except ValueError as e:
            # default targets that do not exist yet at an early date (e.g. abgelt_st_y_sn before 2009) are dropped
            if "no corresponding function" not in str(e):
                raise
            missing = set(re.findall(r'"([^"]+)"', str(e)))
            if not missing or not (missing & set(targets)):
                raise
            targets = [t for t in targets if t not in missing]
    raise RuntimeError("function_table: could not settle the target list")


def arg_names(fn):
    import inspect

    return [
        p
        for p, v in inspect.signature(fn).parameters.items()
        if v.default is v.empty
    ]


@functools.lru_cache(maxsize=64)
def _all_nodes_cached(date: str, data_cols: tuple):
    return all_nodes(date, list(data_cols))


def all_nodes(date, data_cols, functions=None, extra_targets=(), group_specs=None, pid_specs=None):
    """Every node computable from `data_cols`: (ordered list, table dict name->args).

    The set is obtained from the implementation's own function table; a node is kept when all
    root ancestors are data columns (or rules that only need parameters).
    """
    import networkx as nx

    dt = default_targets()
    try:
        fno, fo = function_table(date, data_cols, list(dt) + list(extra_targets), functions, group_specs, pid_specs)
    except ValueError as e:
        # before 2009 some default targets do not exist as functions: drop the ones reported missing
        import re

        missing = set(re.findall(r'"([^"\n]+)"', str(e)))
        dt = [t for t in dt if t not in missing]
        fno, fo = function_table(date, data_cols, list(dt) + [t for t in extra_targets if t not in missing], functions, group_specs, pid_specs)
    args = {n: [a for a in arg_names(f) if not a.endswith("_params")] for n, f in fno.items()}
    g = nx.DiGraph()
    for n, a in args.items():
        g.add_node(n)
        for x in a:
            g.add_edge(x, n)
    data = set(data_cols)
    bad = {n for n in g.nodes if n not in args and n not in data}
    # nodes depending on missing roots
    dead = set(bad)
    for b in bad:
        dead |= nx.descendants(g, b)
    try:
        order = list(nx.topological_sort(g))
    except nx.NetworkXUnfeasible:
        order = sorted(g.nodes)
    ok = [n for n in order if n in args and n not in dead]
    return ok, args


def all_nodes_for(date, data_cols):
    return _all_nodes_cached(date, tuple(sorted(data_cols)))


# ---------------------------------------------------------------------------------------
# populations


def iso(d):
    return d if isinstance(d, str) else d.isoformat()


def year_of(date: str) -> int:
    return int(date[:4])


PERSON_DEFAULTS = {
    "mietstufe": 3,
    "geburtsmonat": 1,
    "geburtstag": 1,
    "m_freiw_beitrag": 5.0,
    "m_schul_ausbild": 10.0,
    "m_kind_berücks_zeit": 24.0,
    "m_pfleg_berücks_zeit": 1.0,
    "elterngeld_nettoeinkommen_vorjahr_m": 2000.0,
    "wohnfläche_hh": 70.0,
    "bruttokaltmiete_m_hh": 500.0,
    "heizkosten_m_hh": 80.0,
    "steuerklasse": 1,
    "immobilie_baujahr_hh": 1990,
}


def build_population(persons, date):
    """persons: list of dicts with at least p_id, hh_id, alter and pointer columns.

    Missing documented inputs are filled with neutral defaults that depend only on the person's
    own record (never on the row position).  Household-level inputs are taken from the first
    record *by p_id* of the household so that they are constant per household.
    """
    types = input_types()
    year = year_of(date)
    rows = []
    for p in persons:
        r = dict(p)
        a = r.get("alter", 35)
        r.setdefault("alter", a)
        r.setdefault("kind", bool(a < 18))
        r.setdefault("in_ausbildung", bool(a < 18 and a >= 6))
        r.setdefault("geburtsjahr", year - a)
        r.setdefault("jahr_renteneintr", year - a + 67)
        r.setdefault("grundr_zeiten", max(a - 20, 0) * 12)
        r.setdefault("grundr_bew_zeiten", max(a - 20, 0) * 12)
        r.setdefault("grundr_entgeltp", float(max(a - 20, 0)))
        r.setdefault("entgeltp_west", float(max(a - 20, 0)))
        r.setdefault("m_pflichtbeitrag", float(max(a - 25, 0) * 12))
        for k in (
            "p_id_elternteil_1",
            "p_id_elternteil_2",
            "p_id_ehepartner",
            "p_id_einstandspartner",
            "p_id_kindergeld_empf",
            "p_id_erziehgeld_empf",
            "p_id_betreuungsk_träger",
        ):
            r.setdefault(k, -1)
        for k, t in types.items():
            if k in r:
                continue
            if k in PERSON_DEFAULTS:
                r[k] = PERSON_DEFAULTS[k]
            elif t is bool:
                r[k] = False
            elif t is int:
                r[k] = 0
            else:
                r[k] = 0.0
        rows.append(r)
    # household-level constancy
    hh_cols = [c for c in types if c.endswith("_hh")]
    first = {}
    for r in sorted(rows, key=lambda r: r["p_id"]):
        first.setdefault(r["hh_id"], r)
    for r in rows:
        for c in hh_cols:
            r[c] = first[r["hh_id"]][c]
    df = pd.DataFrame(rows)
    for k, t in types.items():
        if k in df:
            df[k] = df[k].astype({bool: bool, int: np.int64, float: float}[t])
    cols = [c for c in types if c in df]
    return df[cols]


def household(kind, base_pid=0, hh_id=0, **attrs):
    """A few canonical household shapes used by several drivers (lists of person dicts)."""
    P = []
    pid = base_pid

    def person(alter, **kw):
        nonlocal pid
        d = {"p_id": pid, "hh_id": hh_id, "alter": alter}
        d.update(kw)
        P.append(d)
        pid += 1
        return d

    if kind == "single":
        person(35)
    elif kind == "couple":
        a = person(40)
        b = person(38, weiblich=True)
        a["p_id_ehepartner"] = b["p_id"]
        b["p_id_ehepartner"] = a["p_id"]
        a["p_id_einstandspartner"] = b["p_id"]
        b["p_id_einstandspartner"] = a["p_id"]
        a["gemeinsam_veranlagt"] = b["gemeinsam_veranlagt"] = True
    elif kind == "single_parent":
        a = person(35, weiblich=True, alleinerz=True, ges_pflegev_hat_kinder=True)
        for al in attrs.pop("child_ages", [5]):
            person(
                al,
                p_id_elternteil_1=a["p_id"],
                p_id_kindergeld_empf=a["p_id"],
                p_id_erziehgeld_empf=a["p_id"],
                p_id_betreuungsk_träger=a["p_id"],
            )
    elif kind == "family":
        a = person(40, ges_pflegev_hat_kinder=True)
        b = person(38, weiblich=True, ges_pflegev_hat_kinder=True)
        a["p_id_ehepartner"] = b["p_id"]
        b["p_id_ehepartner"] = a["p_id"]
        a["p_id_einstandspartner"] = b["p_id"]
        b["p_id_einstandspartner"] = a["p_id"]
        a["gemeinsam_veranlagt"] = b["gemeinsam_veranlagt"] = True
        for al in attrs.pop("child_ages", [8, 3]):
            person(
                al,
                p_id_elternteil_1=a["p_id"],
                p_id_elternteil_2=b["p_id"],
                p_id_kindergeld_empf=a["p_id"],
                p_id_erziehgeld_empf=b["p_id"],
                p_id_betreuungsk_träger=a["p_id"],
            )
    elif kind == "pensioner_couple":
        a = person(70, rentner=True, jahr_renteneintr=None)
        b = person(68, weiblich=True, rentner=True, jahr_renteneintr=None)
        for x in (a, b):
            x.pop("jahr_renteneintr")
        a["p_id_ehepartner"] = b["p_id"]
        b["p_id_ehepartner"] = a["p_id"]
        a["p_id_einstandspartner"] = b["p_id"]
        b["p_id_einstandspartner"] = a["p_id"]
        a["gemeinsam_veranlagt"] = b["gemeinsam_veranlagt"] = True
    else:
        raise ValueError(kind)
    for p in P:
        for k, v in attrs.items():
            p.setdefault(k, v)
    return P


# ---------------------------------------------------------------------------------------
# robust "all nodes" computation


def _blame(exc, functions_by_pyname):
    """Name of the DAG node whose rule raised (innermost frame that is a known rule)."""
    import traceback

    tb = traceback.extract_tb(exc.__traceback__)
    for fr in reversed(tb):
        if fr.name in functions_by_pyname and "_gettsim" in fr.filename:
            return functions_by_pyname[fr.name]
    msg = str(exc)
    import re

    m = re.search(r"function (\S+) are expected", msg)
    if m:
        return m.group(1)
    return None


def default_ancestors(date, data_cols):
    import networkx as nx

    ok, args = all_nodes_for(date, data_cols)
    g = nx.DiGraph()
    for n, a in args.items():
        for x in a:
            g.add_edge(x, n)
    anc = set()
    for t in default_targets():
        if t in g:
            anc |= nx.ancestors(g, t) | {t}
    return {n for n in anc if n in args}


def descendants_of(date, data_cols, node):
    import networkx as nx

    ok, args = all_nodes_for(date, data_cols)
    g = nx.DiGraph()
    for n, a in args.items():
        g.add_node(n)
        for x in a:
            g.add_edge(x, n)
    return (nx.descendants(g, node) | {node}) if node in g else {node}


def compute_all(df, date, targets=None, params=None, functions=None, rounding=True, max_iter=40, **kw):
    """Compute as many nodes as possible; returns (result, excluded: dict node->reason).

    Nodes whose rule raises on this population are removed together with their descendants and the
    computation is repeated.  Nothing is hidden: the caller gets the exclusions.
    """
    funcs = functions if functions is not None else env(date)[1]
    by_py = {}
    for n, f in funcs.items():
        by_py[getattr(f, "__name__", n)] = n
    cols = list(df) if not isinstance(df, dict) else list(df.keys())
    if targets is None:
        targets, _ = all_nodes(date, cols, functions=functions)
    targets = list(targets)
    excluded = {}
    for _ in range(max_iter):
        try:
            res = compute(df, date, params=params, functions=functions, targets=targets, rounding=rounding, **kw)
            return res, excluded
        except Exception as e:  # noqa: BLE001
            node = _blame(e, by_py)
            if node is None or node not in targets:
                # fall back: bisect
                bad = _bisect_failing(df, date, targets, params, functions, rounding, kw)
                if not bad:
                    raise
                for b in bad:
                    excluded[b] = f"{type(e).__name__}"
                targets = [t for t in targets if t not in bad]
                continue
            desc = descendants_of(date, cols, node) if functions is None else {node}
            for d in desc:
                if d in targets:
                    excluded[d] = f"{type(e).__name__} in {node}: {str(e)[:80]}"
            targets = [t for t in targets if t not in desc]
    raise RuntimeError("compute_all: too many failing nodes")


def _bisect_failing(df, date, targets, params, functions, rounding, kw):
    def ok(ts):
        try:
            compute(df, date, params=params, functions=functions, targets=ts, rounding=rounding, **kw)
            return True
        except Exception:  # noqa: BLE001
            return False

    bad = set()

    def rec(ts):
        if not ts or ok(ts):
            return
        if len(ts) == 1:
            bad.add(ts[0])
            return
        h = len(ts) // 2
        rec(ts[:h])
        rec(ts[h:])

    rec(list(targets))
    return bad


@functools.lru_cache(maxsize=None)
def regime_dates(lo="2009-01-01", hi="2025-12-31"):
    """A smallest set of dates in [lo, hi] such that every dated version of every internal rule (policy_info
    start_date / end_date) that is in force somewhere in the window is in force on at least one of them
    (interval stabbing over the registry as it is in the tree under test)."""
    import datetime

    from _gettsim.functions_loader import load_internal_functions
    from _gettsim.shared import TIME_DEPENDENT_FUNCTIONS

    load_internal_functions()
    a, b = datetime.date.fromisoformat(lo), datetime.date.fromisoformat(hi)
    wins = set()
    for fl in TIME_DEPENDENT_FUNCTIONS.values():
        for f in fl:
            s, e = f.__info__["start_date"], f.__info__["end_date"]
            if e >= a and s <= b:
                wins.add((max(s, a), min(e, b)))
    pts = []
    for s, e in sorted(wins, key=lambda w: w[1]):
        if not pts or pts[-1] < s:
            pts.append(e)
    return tuple(d.isoformat() for d in pts)


@functools.lru_cache(maxsize=None)
def change_dates(lo="2015-01-01", hi="2025-12-31", skip_2017h1=True):
    """Every day in [lo, hi] on which a parameter entry or a dated rule version of the tree under test starts
    (plus lo itself).  2017-01-01 .. 2017-06-30 can be left to C08 / C19 (default targets not computable there)."""
    import datetime

    import c07
    from _gettsim.functions_loader import load_internal_functions
    from _gettsim.shared import TIME_DEPENDENT_FUNCTIONS

    a, b = datetime.date.fromisoformat(lo), datetime.date.fromisoformat(hi)
    days = {a}
    for g in c07.export_raw():
        for p in g["params"]:
            days |= {datetime.date.fromordinal(e["day"]) for e in p["entries"]}
    load_internal_functions()
    for fl in TIME_DEPENDENT_FUNCTIONS.values():
        for f in fl:
            days.add(f.__info__["start_date"])
    out = sorted(d for d in days if a <= d <= b)
    if skip_2017h1:
        out = [d for d in out if not (datetime.date(2017, 1, 1) <= d <= datetime.date(2017, 6, 30))]
    return tuple(d.isoformat() for d in out)
