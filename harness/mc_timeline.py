"""Abstract timelines (MC_Timeline): model check the resolution rules, then replay a sample of
the enumerated timelines through the real YAML loader on synthetic parameter directories and
let TLC (Trace_Timeline) validate what the loader returned."""
from __future__ import annotations

import os
import datetime
import shutil
from pathlib import Path

import tlaval
import tlc

CAL = [737424, 737425, 737483, 737484, 737485, 737790, 737791, 737849, 737850]


def untag(s):
    k, v = s[0], s[1:]
    if k == "i":
        return int(v)
    if k == "f":
        return float(v)
    if k == "s":
        return v
    if k == "b":
        return v == "True"
    raise ValueError(s)


def entry_yaml(e, gb_name):
    body = {}
    if e["scalar"]:
        body["scalar"] = untag(e["scalar"])
        return body
    if e["dev"] == "previous":
        body["deviation_from"] = "previous"
    elif e["dev"]:
        body["deviation_from"] = f"{gb_name}.q"
    for v in e["vals"]:
        k = untag(v["key"])
        leafs = v["flat"]
        if len(leafs) == 1 and len(leafs[0][0]) == 0:
            body[k] = untag(leafs[0][1])
        else:
            body[k] = {untag(p[0]): untag(leaf) for p, leaf in leafs}
    return body


def render(tl, k, d):
    import yaml

    ga, gb = f"ga{k}", f"gb{k}"
    pa = {datetime.date.fromordinal(e["day"]): entry_yaml(e, gb) for e in tl["p"]}
    if tl["addp"]:
        pa["access_different_date"] = tl["addp"]
    pb = {datetime.date.fromordinal(e["day"]): entry_yaml(e, gb) for e in tl["q"]}
    (d / f"{ga}.yaml").write_text(yaml.safe_dump({"p": pa} if tl["p"] else {"zz": {datetime.date(2000, 1, 1): {"scalar": 1}}}, allow_unicode=True), encoding="utf-8")
    (d / f"{gb}.yaml").write_text(yaml.safe_dump({"q": pb} if tl["q"] else {"zz": {datetime.date(2000, 1, 1): {"scalar": 1}}}, allow_unicode=True), encoding="utf-8")
    return ga, gb


def run_abstract(chk, quick, rnd):
    import c07
    from _gettsim.policy_environment import _load_parameter_group_from_yaml

    cfg = tlc.SPEC_DIR / f"_gen_tl_{os.getpid()}.cfg"
    cfg.write_text(
        f"CONSTANTS\n  MaxP = 2\n  MaxQ = {1 if quick else 2}\nSPECIFICATION Spec\nINVARIANT ConstantBetweenChangeDays\nINVARIANT NoError\nINVARIANT AbsentBeforeFirst\nCHECK_DEADLOCK FALSE\n"
    )
    dump = chk.work / "tl"
    try:
        res = tlc.run("MC_Timeline", cfg.name, workdir=chk.work, workers=16, dump=dump, timeout=2400)
    finally:
        cfg.unlink(missing_ok=True)
    if res.violated:
        chk.violation(f"C07|spec-theorem|{','.join(res.violated)}", "the specified resolution violates a C07 theorem on an abstract timeline", {"out": res.out[-3000:]})
        return
    chk.add_mc(res, "MC_Timeline")
    # sample states without reading the whole dump into memory
    text = open(str(dump) + ".dump", encoding="utf-8").read()
    Path(str(dump) + ".dump").unlink()
    blocks = text.split("\nState ")
    want = 250 if quick else 4000
    idx = rnd.sample(range(1, len(blocks)), min(want, len(blocks) - 1))
    tls = []
    for i in idx:
        b = blocks[i]
        st = tlaval.parse_state(b[b.index("\n") + 1 :])
        if st.get("tl") and st["tl"]["p"]:
            tls.append(st["tl"])
    d = chk.work / "yaml"
    d.mkdir(exist_ok=True)
    names = []
    for k, tl in enumerate(tls):
        names.append(render(tl, k, d))
    raw = c07.export_raw(d, [n for pair in names for n in pair])
    # drop the placeholder parameter of empty files
    for g in raw:
        g["params"] = [p for p in g["params"] if p["name"] != "zz"]
    raw_file = chk.work / "raw_abs.json"
    tlc.write_json(raw_file, {"groups": raw, "impls": []})
    events = []
    errors = []
    for k, (ga, gb) in enumerate(names):
        for day in CAL:
            dt = datetime.date.fromordinal(day)
            for g in (ga, gb):
                try:
                    o = _load_parameter_group_from_yaml(dt, g, yaml_path=d)
                except Exception as e:  # noqa: BLE001
                    errors.append((k, g, dt.isoformat(), f"{type(e).__name__}: {str(e)[:100]}"))
                    continue
                o.pop("datum")
                o.pop("rounding", None)
                o.pop("zz", None)
                events.append({"k": "env", "day": day, "iso": dt.isoformat(), "src": "abstract", "group": g, "datum": day,
                               "params": [{"name": n, "flat": c07.flat(v)} for n, v in o.items()], "rounding": []})
    chk.count(len(events))
    bad, stats, meta = c07.judge(chk, raw_file, events, "abs")
    chk.cov["traces_validated_against_impl"] += stats["env"]
    chk.notes["abstract_timelines_replayed"] = len(tls)
    for k, g, iso, err in errors[:5]:
        chk.violation(f"C07|abstract-loader-raises|{err[:50]}", f"the loader raised on a well-formed synthetic timeline ({len(errors)} cases)", {"timeline": tls[k], "group": g, "date": iso, "error": err})
    seen = set()
    for idx, clause, names_ in bad:
        e = events[idx]
        k = int(e["group"][2:])
        if clause == "interior":
            continue
        sig = f"C07|abstract-{clause}|add={tls[k]['addp'] or 'none'}|name={','.join(names_)}"
        if sig in seen:
            continue
        seen.add(sig)
        chk.violation(sig, f"loader result differs from the specified resolution on a synthetic timeline at {e['iso']}", {"timeline": tls[k], "group": e["group"], "date": e["iso"], "names": names_})
    if tls:
        chk.sample({"abstract_timeline": tls[0]})
    for tl in tls:
        chk.distinct("tl:" + repr(tl))
    shutil.rmtree(d, ignore_errors=True)


def replay_registration(chk, quick):
    """MC_Register histories -> real policy_info decorator -> TLC verdict (Trace_Timeline, k = register)."""
    import c07
    from _gettsim.shared import ConflictingTimeDependentFunctionsError, policy_info

    dump = chk.work / "reg"
    res = tlc.run("MC_Register", "MC_Register.cfg", workdir=chk.work, workers=4, dump=dump, timeout=600)
    if res.violated:
        chk.violation(f"C07|spec-theorem|register|{','.join(res.violated)}", "registration discipline does not give one implementation per day", {"out": res.out[-2000:]})
        return
    chk.add_mc(res, "MC_Register")
    states = tlaval.read_dump(str(dump) + ".dump")
    Path(str(dump) + ".dump").unlink()
    events = []
    for k, st in enumerate(states):
        h = st.get("hist") or []
        if not h:
            continue
        key = f"verif_reg_{chk.seed}_{k}"
        attempts = []
        for i, a in enumerate(h):
            def f():
                return 0.0

            f.__name__ = f"{key}_impl{i}"
            ok = True
            try:
                policy_info(start_date=f"2001-01-0{a['s']}", end_date=f"2001-01-0{a['e']}", name_in_dag=key)(f)
            except ConflictingTimeDependentFunctionsError:
                ok = False
            attempts.append({"s": a["s"], "e": a["e"], "ok": ok})
        events.append({"k": "register", "attempts": attempts})
    raw_file = chk.work / "raw_reg.json"
    tlc.write_json(raw_file, {"groups": [], "impls": []})
    chk.count(len(events))
    bad, stats, meta = c07.judge(chk, raw_file, events, "reg")
    chk.cov["traces_validated_against_impl"] += len(events)
    chk.notes["registration_histories_replayed"] = len(events)
    for idx, clause, _ in bad[:3]:
        chk.violation("C07|register-overlap-test", f"policy_info accepted/rejected a dated implementation against the inclusive-overlap rule ({len(bad)} histories)", {"attempts": events[idx]["attempts"]})
    # clean the registry entries this replay created
    from _gettsim.shared import TIME_DEPENDENT_FUNCTIONS

    for k in [k for k in TIME_DEPENDENT_FUNCTIONS if k.startswith("verif_reg_")]:
        del TIME_DEPENDENT_FUNCTIONS[k]
