"""Population generator: structure from TLC (Households), attributes dressed on top (seeded).

Only builds inputs; validity in the sense of the specification is re-checked by TLC in the
trace specs that consume these populations.
"""
from __future__ import annotations

import random

import gs

WAGES = [0.0, 0.0, 100.0, 450.0, 450.01, 520.0, 538.0, 850.0, 1300.0, 2000.0, 2000.0, 3000.0, 4500.0, 5000.0, 7100.0, 12000.0]
RENTS = [0.0, 250.0, 400.0, 600.0, 950.0, 1500.0]
WEALTH = [0.0, 0.0, 3000.0, 9000.0, 40000.0, 150000.0, 1e6]


def assign_ages(struct, rnd):
    """Concrete ages consistent with the structure's age classes (young < 25 <= old) and with
    parents being older than their children where the classes allow it."""
    n = len(struct)
    ages = [None] * n
    children = {i: [] for i in range(1, n + 1)}
    for i, r in enumerate(struct, start=1):
        for q in (r["e1"], r["e2"]):
            if q:
                children[q].append(i)

    def depth(i, seen=()):
        if i in seen:
            return 0
        ch = children[i]
        return 0 if not ch else 1 + max(depth(c, seen + (i,)) for c in ch)

    for i, r in enumerate(struct, start=1):
        young = r["age"] < 25
        d = depth(i)
        if young:
            if d == 0:
                has_parent = bool(r["e1"] or r["e2"])
                ages[i - 1] = rnd.choice([0, 1, 2, 5, 8, 13, 15, 17, 18, 20, 24]) if has_parent else rnd.choice([18, 21, 24])
            else:
                ages[i - 1] = rnd.choice([19, 22, 24])
        else:
            if d == 0:
                ages[i - 1] = rnd.choice([25, 30, 38, 45, 58, 64, 66, 70, 85]) if not (r["e1"] or r["e2"]) else rnd.choice([25, 28, 33])
            elif d == 1:
                ages[i - 1] = rnd.choice([26, 35, 42, 50])
            else:
                ages[i - 1] = rnd.choice([55, 63, 67, 75])
    # teen parents: make their children small
    for i, r in enumerate(struct, start=1):
        for q in (r["e1"], r["e2"]):
            if q and ages[i - 1] is not None and ages[q - 1] is not None and ages[q - 1] - ages[i - 1] < 14:
                if r["age"] < 25:
                    ages[i - 1] = max(0, min(ages[i - 1], ages[q - 1] - 16))
    return ages


def dress(struct, date, rnd, pid_base=0, hh_base=0, pid_map=None, profile=None):
    """struct: list of Households person records (identities 1..n) -> list of person dicts."""
    year = gs.year_of(date)
    n = len(struct)
    ages = assign_ages(struct, rnd)
    pid = pid_map or {i: pid_base + i - 1 for i in range(1, n + 1)}
    ptr = lambda v: -1 if v == 0 else pid[v]  # noqa: E731
    profile = profile or {}
    hh_attrs = {}
    P = []
    for i, r in enumerate(struct, start=1):
        a = ages[i - 1]
        hh = hh_base + r["hh"]
        if hh not in hh_attrs:
            hh_attrs[hh] = {
                "bruttokaltmiete_m_hh": rnd.choice(RENTS),
                "heizkosten_m_hh": rnd.choice([0.0, 40.0, 90.0, 200.0]),
                "wohnfläche_hh": rnd.choice([20.0, 45.0, 70.0, 120.0, 250.0]),
                "bewohnt_eigentum_hh": rnd.random() < 0.2,
                "immobilie_baujahr_hh": rnd.choice([1950, 1965, 1971, 1991, 2001, 2010]),
                "mietstufe": rnd.choice([1, 2, 3, 4, 5, 6]),
                "wohnort_ost": rnd.random() < 0.3,
            }
        parents = [q for q in (r["e1"], r["e2"]) if q]
        same_hh_parents = [q for q in parents if struct[q - 1]["hh"] == r["hh"]]
        adult = a >= 18
        working = adult and a < 65 and rnd.random() < 0.75
        retired = a >= 63 and rnd.random() < 0.8
        d = {
            "p_id": pid[i],
            "hh_id": hh,
            "alter": a,
            "kind": bool(a < 18 or (a < 25 and bool(same_hh_parents) and rnd.random() < 0.5)),
            "weiblich": rnd.random() < 0.5,
            "p_id_einstandspartner": ptr(r["partner"]),
            "p_id_ehepartner": ptr(r["spouse"]),
            "gemeinsam_veranlagt": bool(r["gv"]),
            "p_id_elternteil_1": ptr(r["e1"]),
            "p_id_elternteil_2": ptr(r["e2"]),
            "eigenbedarf_gedeckt": bool(r["eb"]),
            "geburtsjahr": year - a,
            "geburtsmonat": rnd.choice([1, 2, 6, 12]),
            "geburtstag": rnd.choice([1, 15, 28]),
            "bruttolohn_m": rnd.choice(WAGES) if working else 0.0,
            "bruttolohn_vorj_m": rnd.choice(WAGES) if working else 0.0,
            "eink_selbst_m": rnd.choice([0.0, 0.0, 0.0, 800.0, 4000.0]) if adult else 0.0,
            "selbstständig": False,
            "kapitaleink_brutto_m": rnd.choice([0.0, 0.0, 50.0, 100.0, 2000.0]) if adult else 0.0,
            "eink_vermietung_m": rnd.choice([0.0, 0.0, -300.0, 500.0]) if adult else 0.0,
            "sonstig_eink_m": rnd.choice([0.0, 0.0, 200.0]) if adult else 0.0,
            "arbeitsstunden_w": rnd.choice([0.0, 10.0, 20.0, 38.5, 40.0]) if working else 0.0,
            "in_ausbildung": bool(6 <= a < 25 and rnd.random() < 0.6),
            "rentner": bool(retired),
            "jahr_renteneintr": (year - a + rnd.choice([63, 65, 67])) if not retired else min(year, year - a + rnd.choice([63, 65])),
            "monat_renteneintr": rnd.choice([1, 7, 12]),
            "priv_rente_m": rnd.choice([0.0, 150.0, 900.0]) if retired else 0.0,
            "entgeltp_west": float(rnd.choice([0, 10, 30, 45, 60])) if adult else 0.0,
            "entgeltp_ost": float(rnd.choice([0, 0, 5, 20])) if adult else 0.0,
            "grundr_zeiten": rnd.choice([0, 200, 396, 420, 480]) if adult else 0,
            "grundr_bew_zeiten": rnd.choice([0, 100, 396, 420]) if adult else 0,
            "grundr_entgeltp": float(rnd.choice([0, 8, 20, 33])) if adult else 0.0,
            "m_pflichtbeitrag": float(max(a - 25, 0) * 12),
            "m_freiw_beitrag": rnd.choice([0.0, 5.0]),
            "m_schul_ausbild": rnd.choice([0.0, 10.0, 36.0]),
            "m_kind_berücks_zeit": rnd.choice([0.0, 24.0, 120.0]) if adult else 0.0,
            "m_pfleg_berücks_zeit": rnd.choice([0.0, 1.0]),
            "m_arbeitsl": rnd.choice([0.0, 0.0, 12.0]),
            "y_pflichtbeitr_ab_40": float(max(min(a, 65) - 40, 0)),
            "pflichtbeitr_8_in_10": rnd.random() < 0.5,
            "vermögen_bedürft": rnd.choice(WEALTH) if adult else 0.0,
            "behinderungsgrad": rnd.choice([0, 0, 0, 30, 50, 80, 100]),
            "schwerbeh_g": False,
            "in_priv_krankenv": adult and rnd.random() < 0.1,
            "priv_rentenv_beitr_m": rnd.choice([0.0, 0.0, 100.0]) if adult else 0.0,
            "betreuungskost_m": rnd.choice([0.0, 150.0, 600.0]) if a < 14 else 0.0,
            "kind_unterh_anspr_m": rnd.choice([0.0, 300.0]) if (a < 18 and len(same_hh_parents) == 1) else 0.0,
            "kind_unterh_erhalt_m": rnd.choice([0.0, 200.0]) if (a < 18 and len(same_hh_parents) == 1) else 0.0,
            "arbeitssuchend": adult and not working and a < 65 and rnd.random() < 0.5,
            "anwartschaftszeit": rnd.random() < 0.5,
            "m_durchg_alg1_bezug": rnd.choice([0.0, 3.0, 12.0]),
            "sozialv_pflicht_5j": rnd.choice([0.0, 12.0, 24.0, 60.0]),
            "bürgerg_bezug_vorj": rnd.random() < 0.5,
            "elterngeld_nettoeinkommen_vorjahr_m": rnd.choice([0.0, 800.0, 1500.0, 2500.0, 6000.0]) if adult else 0.0,
            "elterngeld_zu_verst_eink_vorjahr_y_sn": rnd.choice([0.0, 30000.0, 400000.0]) if adult else 0.0,
            "elterngeld_claimed": adult and rnd.random() < 0.4,
            "monate_elterngeldbezug": rnd.choice([0, 0, 5, 12, 14]) if adult else 0,
            "steuerklasse": rnd.choice([3, 4, 5]) if r["spouse"] else rnd.choice([1, 2]),
            "voll_erwerbsgemind": False,
            "teilw_erwerbsgemind": False,
            "höchster_bruttolohn_letzte_15_jahre_vor_rente_y": rnd.choice([0.0, 30000.0, 60000.0]) if retired else 0.0,
            "budgetsatz_erzieh": rnd.random() < 0.3,
            "ges_pflegev_hat_kinder": False,
        }
        d.update(hh_attrs[hh])
        if a < 25 and same_hh_parents:
            q = rnd.choice(same_hh_parents)
            d["p_id_kindergeld_empf"] = pid[q]
            d["p_id_erziehgeld_empf"] = pid[rnd.choice(same_hh_parents)] if a < 3 else -1
            d["p_id_betreuungsk_träger"] = pid[q]
        elif a < 25 and parents:
            d["p_id_kindergeld_empf"] = pid[parents[0]]
        # some adults below retirement age have a reduced earning capacity and draw the pension for it (otherwise the rules of
        # the Erwerbsminderungsrente would only ever be evaluated on their zero branch)
        if a >= 23 and a < 63 and rnd.random() < 0.1:
            d["voll_erwerbsgemind"] = rnd.random() < 0.6
            d["teilw_erwerbsgemind"] = not d["voll_erwerbsgemind"]
            d["rentner"] = True
            d["jahr_renteneintr"] = year - rnd.choice([k_ for k_ in (0, 1, 5) if a - k_ >= 22])     # the pension started at 22 or later
            d["m_pflichtbeitrag"] = max(d["m_pflichtbeitrag"], rnd.choice([12.0, 36.0, min(120.0, (a - 17) * 12.0)]))
        for k, v in profile.items():
            d[k] = v(i, r, d, rnd) if callable(v) else v
        P.append(d)
    # inputs at tax-unit level must be constant within the tax unit (jointly assessed spouses)
    for i, r in enumerate(struct, start=1):
        if r["spouse"] and r["gv"] and r["spouse"] < i:
            P[i - 1]["elterngeld_zu_verst_eink_vorjahr_y_sn"] = P[r["spouse"] - 1]["elterngeld_zu_verst_eink_vorjahr_y_sn"]
    # derived consistency: alleinerz, ges_pflegev_hat_kinder
    kids_of = {}
    for i, r in enumerate(struct, start=1):
        for q in (r["e1"], r["e2"]):
            if q:
                kids_of.setdefault(q, []).append(i)
    for i, r in enumerate(struct, start=1):
        d = P[i - 1]
        ks = kids_of.get(i, [])
        if ks:
            d["ges_pflegev_hat_kinder"] = True
            cores = [k for k in ks if struct[k - 1]["hh"] == r["hh"] and P[k - 1]["alter"] < 18]
            d["alleinerz"] = bool(cores) and r["partner"] == 0
        if "alleinerz" in profile:
            v = profile["alleinerz"]
            d["alleinerz"] = v(i, r, d, rnd) if callable(v) else v
    return P


def compose(structs, date, rnd, sparse=False, profile=None):
    """Several closed structures -> one population (disjoint p_id / hh_id ranges)."""
    P = []
    pid_base = 0
    hh_base = 0
    for s in structs:
        n = len(s)
        if sparse:
            labels = rnd.sample(range(pid_base, pid_base + 50), n)
            pid_map = {i: labels[i - 1] for i in range(1, n + 1)}
        else:
            pid_map = None
        P += dress(s, date, rnd, pid_base=pid_base, hh_base=hh_base, pid_map=pid_map, profile=profile)
        pid_base += 50 if sparse else n
        hh_base += 1 + max(r["hh"] for r in s)
    return P


# canonical structures (identities 1..n) used when no TLC dump is at hand
def rec(hh=0, age=40, partner=0, spouse=0, gv=False, e1=0, e2=0, eb=False, wv=False):
    return {"hh": hh, "age": age, "partner": partner, "spouse": spouse, "gv": gv, "e1": e1, "e2": e2, "eb": eb, "wv": wv}


CANON = {
    "single": [rec()],
    "single_young": [rec(age=24)],
    "couple_married": [rec(partner=2, spouse=2, gv=True), rec(partner=1, spouse=1, gv=True)],
    "couple_married_sep": [rec(partner=2, spouse=2, gv=False), rec(partner=1, spouse=1, gv=False)],
    "couple_unmarried": [rec(partner=2), rec(partner=1)],
    "single_parent_1": [rec(), rec(age=24, e1=1)],
    "single_parent_2": [rec(), rec(age=24, e1=1), rec(age=24, e1=1)],
    "family_1": [rec(partner=2, spouse=2, gv=True), rec(partner=1, spouse=1, gv=True), rec(age=24, e1=1, e2=2)],
    "family_2": [rec(partner=2, spouse=2, gv=True), rec(partner=1, spouse=1, gv=True), rec(age=24, e1=1, e2=2), rec(age=24, e1=1, e2=2)],
    "family_3": [rec(partner=2, spouse=2, gv=True), rec(partner=1, spouse=1, gv=True)] + [rec(age=24, e1=1, e2=2) for _ in range(3)],
    "family_6": [rec(partner=2, spouse=2, gv=True), rec(partner=1, spouse=1, gv=True)] + [rec(age=24, e1=1, e2=2) for _ in range(6)],
    "patchwork": [rec(partner=2), rec(partner=1), rec(age=24, e1=1), rec(age=24, e1=2)],
    "stepchild": [rec(partner=2, spouse=2, gv=True), rec(partner=1, spouse=1, gv=True), rec(age=24, e1=2)],
    "three_gen": [rec(age=70), rec(age=40, e1=1), rec(age=24, e1=2)],
    "adult_child": [rec(age=60), rec(age=30, e1=1)],
    "self_sufficient_child": [rec(), rec(age=24, e1=1, eb=True), rec(age=24, e1=1)],
    "parent_elsewhere": [rec(hh=0), rec(hh=1, age=24, e1=1), rec(hh=1, e2=0)],
    "spouses_apart": [rec(hh=0, spouse=2, gv=True), rec(hh=1, spouse=1, gv=True)],
    # an unmarried couple; the child of the SECOND partner lives with its retired grandmother in another household
    "stepchild_elsewhere": [rec(hh=0, partner=2), rec(hh=0, partner=1), rec(hh=1, age=24, e1=2), rec(hh=1, age=70)],
}


def rich_core(date, rnd, pid_base=1000, hh_base=500):
    """A fixed set of households in which every default target is positive for somebody, whatever the seed draws elsewhere:
    a single parent with small children and too little alimony (Unterhaltsvorschuss, Kinderzuschlag / ALG II range), a one-earner
    family with a baby (Elterngeld, Kindergeld, taxes, contributions), a pensioner couple (pensions, Grundsicherung range), an
    unemployed single (ALG I), a low-wage couple (Wohngeld / ALG II range), a self-employed person with capital income."""
    year = gs.year_of(date)
    structs = [CANON["single_parent_2"], CANON["family_3"], CANON["couple_married"], CANON["single"], CANON["couple_unmarried"], CANON["single"], CANON["single"]]
    r0 = __import__("random").Random(12345)       # the core does not depend on the caller's seed
    P = []
    pb, hb = pid_base, hh_base
    for s in structs:
        P.append(dress(s, date, r0, pid_base=pb, hh_base=hb))
        pb += len(s)
        hb += 1 + max(r["hh"] for r in s)

    def setp(q, **kw):
        q.update(kw)
        if "alter" in kw:
            q["geburtsjahr"] = year - kw["alter"]

    base = {"rentner": False, "voll_erwerbsgemind": False, "teilw_erwerbsgemind": False, "eink_vermietung_m": 0.0, "eink_selbst_m": 0.0, "kapitaleink_brutto_m": 0.0, "sonstig_eink_m": 0.0,
            "vermögen_bedürft": 0.0, "in_priv_krankenv": False, "arbeitssuchend": False, "selbstständig": False, "priv_rente_m": 0.0, "elterngeld_claimed": False, "monate_elterngeldbezug": 0}
    for grp in P:
        for q in grp:
            q.update(base)
            if q["alter"] >= 18:
                q["jahr_renteneintr"] = q["geburtsjahr"] + 67
    sp, fam, old, unemp, low, selfe, dis = P
    import datetime as _dt

    birth = _dt.date.fromisoformat(date) - _dt.timedelta(days=100)      # the baby of the family is 100 days old
    setp(dis[0], alter=48, bruttolohn_m=0.0, arbeitsstunden_w=0.0, kind=False, rentner=True, voll_erwerbsgemind=True, m_pflichtbeitrag=240.0, entgeltp_west=22.0, entgeltp_ost=0.0)
    dis[0]["jahr_renteneintr"] = year - 2
    setp(sp[0], alter=34, bruttolohn_m=1400.0, bruttolohn_vorj_m=1400.0, arbeitsstunden_w=30.0, alleinerz=True, kind=False)
    for q, a in zip(sp[1:], (3, 9)):
        setp(q, alter=a, kind=True, bruttolohn_m=0.0, kind_unterh_anspr_m=300.0, kind_unterh_erhalt_m=100.0, in_ausbildung=a >= 6, p_id_kindergeld_empf=sp[0]["p_id"], betreuungskost_m=150.0)
    setp(fam[0], alter=36, bruttolohn_m=3200.0, bruttolohn_vorj_m=3100.0, arbeitsstunden_w=40.0, kind=False)
    setp(fam[1], alter=33, bruttolohn_m=0.0, bruttolohn_vorj_m=2400.0, arbeitsstunden_w=0.0, kind=False, elterngeld_claimed=True, monate_elterngeldbezug=4, elterngeld_nettoeinkommen_vorjahr_m=1700.0)
    for q, a in zip(fam[2:], (0, 4, 8)):
        setp(q, alter=a, kind=True, bruttolohn_m=0.0, in_ausbildung=a >= 6, p_id_kindergeld_empf=fam[0]["p_id"])
    fam[2].update({"geburtsjahr": birth.year, "geburtsmonat": birth.month, "geburtstag": birth.day})
    for q in fam[:2]:
        q["elterngeld_zu_verst_eink_vorjahr_y_sn"] = 30000.0
    for q, a, ep in zip(old, (72, 69), (38.0, 9.0)):
        setp(q, alter=a, rentner=True, bruttolohn_m=0.0, arbeitsstunden_w=0.0, entgeltp_west=ep, entgeltp_ost=0.0, kind=False, priv_rente_m=50.0, grundr_zeiten=420, grundr_bew_zeiten=420, grundr_entgeltp=ep * 0.6)
        q["jahr_renteneintr"] = q["geburtsjahr"] + 65
    setp(unemp[0], alter=45, bruttolohn_m=0.0, bruttolohn_vorj_m=2800.0, arbeitsstunden_w=0.0, arbeitssuchend=True, anwartschaftszeit=True, sozialv_pflicht_5j=60.0, m_durchg_alg1_bezug=2.0, kind=False)
    setp(low[0], alter=29, bruttolohn_m=1150.0, bruttolohn_vorj_m=1100.0, arbeitsstunden_w=25.0, kind=False)
    setp(low[1], alter=27, bruttolohn_m=520.0, bruttolohn_vorj_m=500.0, arbeitsstunden_w=12.0, kind=False)
    setp(selfe[0], alter=50, bruttolohn_m=0.0, eink_selbst_m=3500.0, selbstständig=True, kapitaleink_brutto_m=900.0, eink_vermietung_m=400.0, kind=False, arbeitsstunden_w=40.0)
    out = [q for grp in P for q in grp]
    for q in out:
        q["bruttokaltmiete_m_hh"] = {1: 420.0}.get(0, 520.0)
        q["heizkosten_m_hh"] = 70.0
        q["wohnfläche_hh"] = 70.0
        q["bewohnt_eigentum_hh"] = False
    return out
