"""Helpers for Trace_Runs: base run with function table, related runs, TLC judge."""
from __future__ import annotations

import warnings

import enc
import gs
import tables
import tlc


def dag_export(date, data_cols, functions=None):
    """Function table of the run: name, args incl. *_params, rounding key."""
    dt = gs.default_targets()
    fno, fo = gs.function_table(date, data_cols, dt, functions)
    out = []
    for n, f in fno.items():
        info = getattr(f, "__info__", None) or {}
        out.append({"n": n, "a": gs.arg_names(f), "r": info.get("params_key_for_rounding", "") or ""})
    return out


def nonderived_nodes(date, df, functions=None):
    ok, args = gs.all_nodes(date, list(df), functions=functions)
    return [n for n in ok if not tables.is_derived_time_variant(n, args.get(n, []))], args


def compute_warn(df, date, **kw):
    """compute, returning (result, list of overriding columns announced by warning, conversion warning?)."""
    from _gettsim.interface import FunctionsAndColumnsOverlapWarning, compute_taxes_and_transfers

    p, f = gs.env(date)
    params = kw.pop("params", p)
    functions = kw.pop("functions", f)
    with warnings.catch_warnings(record=True) as w:
        warnings.simplefilter("always")
        res = compute_taxes_and_transfers(data=df, params=params, functions=functions, **kw)
    warned = []
    conv = False
    other = []
    for x in w:
        if isinstance(x.message, FunctionsAndColumnsOverlapWarning):
            import re

            warned += re.findall(r'"([^"\n]+)"', str(x.message).split("]")[0])
        elif "have been converted" in str(x.message):
            conv = True
        else:
            other.append(str(x.message)[:80])
    return res, warned, conv, other


class RunTrace:
    def __init__(self, work, name):
        self.pool = enc.Pool()
        self.events = []
        self.work = work
        self.name = name

    def base(self, tid, res, cols, dag, **fields):
        self.events.append(tables.table_event(self.pool, res, range(len(res)), cols, colnames=cols, tid=tid, run=0, rel="base", dag=dag, **fields))

    def run(self, tid, k, rel, res, cols, **fields):
        self.events.append(tables.table_event(self.pool, res, range(len(res)), cols, colnames=cols, tid=tid, run=k, rel=rel, **fields))

    def judge(self):
        tf = f"{self.work}/runs_{self.name}.json"
        of = f"{self.work}/runs_{self.name}.out.json"
        tlc.write_json(tf, {"pool": self.pool.items, "events": self.events})
        r = tlc.run("Trace_Runs", "Trace_Runs.cfg", workdir=self.work, env={"TRACE_FILE": tf, "OUT_FILE": of}, timeout=3000)
        if r.violated:
            raise tlc.TLCFailure(f"Trace_Runs: {r.violated}\n{r.out[-1500:]}")
        out = tlc.read_json(of)
        out["tlc_states"] = r.distinct
        return out
