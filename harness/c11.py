"""C11 — group and person-pointer aggregates equal their mathematical definition.

A  MC_Aggregate: theorems about the specified aggregates on all small columns; MC_Dag:
   precedence user spec > built-in > automatic sum.
B  every MC_Aggregate state through grouped_* / sum_by_p_id / join_numpy (all kinds), a sample
   through the public API with user rules + aggregate_by_group_specs on all grouping levels.
C  every aggregation node of the real function table (as Derive.tla says it must be defined)
   on dressed populations, recomputed by TLC from the parent columns of the same run.
"""
from __future__ import annotations

import os
import json
import random
from pathlib import Path

import numpy as np
import pandas as pd

import arith
import gs
import mc_dag
import tlaval
import tlc
from c04 import DATES, make_population
from common import Check, pool_map

LEVEL = "model_checking"
KINDS = ["sum", "mean", "max", "min", "any", "all", "count"]


def registry_events(states, seed):
    from _gettsim import aggregation as ag
    from _gettsim.shared import join_numpy

    rnd = random.Random(seed)
    tr = arith.ArithTrace()
    fn = {"sum": ag.grouped_sum, "mean": ag.grouped_mean, "max": ag.grouped_max, "min": ag.grouped_min, "any": ag.grouped_any, "all": ag.grouped_all}
    BIG = [100300, 7, 52017, 1001, 3, 200001, 64, 25000]      # survey-style labels: large, not monotone, far above the row count (the grouped_* functions allocate one slot per label value, so not arbitrarily large)
    for si, st in enumerate(states):
        vals = [v - 1 for v in st["col"]]
        ids = np.array(st["ids"], dtype=np.int64)
        if si % 2 == 1:   # the specification only uses equality of group labels: every second state is run with large sparse labels
            ids = np.array([BIG[g % len(BIG)] + 1000 * (g // len(BIG)) for g in st["ids"]], dtype=np.int64)
        n = len(vals)
        variants = {
            "sum": [np.array(vals, dtype=float) * 1.1, np.array(vals, dtype=np.int64), np.array(vals) > 0],
            "mean": [np.array(vals, dtype=float) * 0.7],
            "max": [np.array(vals, dtype=float) / 3, np.array(vals, dtype=np.int64), np.array(["2000-01-01"], dtype="datetime64[D]")[0] + np.array(vals)],
            "min": [np.array(vals, dtype=float) / 3, np.array(vals, dtype=np.int64), np.array(["2000-01-01"], dtype="datetime64[D]")[0] + np.array(vals)],
            "any": [np.array(vals) > 0, (np.array(vals) > 0).astype(np.int64), np.array(vals, dtype=np.int64)],      # ints incl. negative values: truthiness
            "all": [np.array(vals) > 0, (np.array(vals) >= 0).astype(np.int64), np.array(vals, dtype=np.int64)],
        }
        for kind, cols in variants.items():
            for col in cols:
                try:
                    obs = fn[kind](col, ids)
                    tr.add({"k": "agg", "node": f"grouped_{kind}", "kind": kind, "src": tr.cells(col), "ids": ids.tolist(), "obs": tr.cells(obs)},
                           {"via": "registry", "fn": f"grouped_{kind}", "col": np.asarray(col).astype(str).tolist(), "ids": ids.tolist(), "dtype": str(col.dtype)})
                except Exception as e:  # noqa: BLE001
                    tr.add({"k": "unknown", "err": type(e).__name__}, {"via": "registry", "fn": f"grouped_{kind}", "raised": f"{type(e).__name__}: {e}"[:120], "ids": ids.tolist(), "dtype": str(col.dtype)})
        obs = ag.grouped_count(ids)
        tr.add({"k": "agg", "node": "grouped_count", "kind": "count", "src": tr.cells(np.zeros(n)), "ids": ids.tolist(), "obs": tr.cells(obs)}, {"via": "registry", "fn": "grouped_count", "ids": ids.tolist()})
        # pointer sums and joins: p_id = sparse labels, pointers from ids (value 0 -> -1 = nobody)
        labels = rnd.sample(range(0, 40), n)
        pid = np.array(labels, dtype=np.int64)
        ptr = np.array([-1 if g == 0 else labels[(g + i) % n] for i, g in enumerate(st["ids"])], dtype=np.int64)
        for col in (np.array(vals, dtype=float) * 1.3, np.array(vals, dtype=np.int64), np.array(vals) > 0):
            obs = ag.sum_by_p_id(col, ptr, pid)
            tr.add({"k": "pidsum", "node": "sum_by_p_id", "src": tr.cells(col), "ptr": ptr.tolist(), "pid": pid.tolist(), "obs": tr.cells(obs)},
                   {"via": "registry", "fn": "sum_by_p_id", "col": col.astype(str).tolist(), "ptr": ptr.tolist(), "pid": pid.tolist()})
        target = np.array(vals, dtype=float) + 0.5
        obs = join_numpy(ptr, pid, target, -99.0)
        tr.add({"k": "join", "fk": ptr.tolist(), "pk": pid.tolist(), "target": tr.cells(target), "dflt": tr.pool.put(-99.0), "obs": tr.cells(obs)},
               {"via": "registry", "fn": "join_numpy", "fk": ptr.tolist(), "pk": pid.tolist()})
    return tr


def narrow_id_events():
    """Group ids stored in narrow integer dtypes (survey files: byte / short columns) with a group of 130 members: counts and
    sums must not be accumulated in the id's dtype."""
    from _gettsim import aggregation as ag

    tr = arith.ArithTrace()
    n = 134
    base_ids = np.array([0] * 130 + [1, 1, 2, 0])
    vals = np.array([(i % 5) - 1 for i in range(n)])
    for dt, ids0 in [(d_, b_) for d_ in (np.int8, np.int16, np.int32, np.uint8) for b_ in (base_ids, np.zeros(n, dtype=int))]:
        ids = ids0.astype(dt)
        cases = [("count", None), ("sum", vals.astype(np.int64)), ("sum", np.ones(n, dtype=bool)), ("sum", vals.astype(float) * 1.5), ("max", vals.astype(np.int64)), ("any", vals > 0)]
        for kind, col in cases:
            try:
                obs = ag.grouped_count(ids) if kind == "count" else getattr(ag, f"grouped_{kind}")(col, ids)
                tr.add({"k": "agg", "node": f"grouped_{kind}", "kind": kind, "src": tr.cells(np.zeros(n) if col is None else col), "ids": [int(x) for x in ids], "obs": tr.cells(obs)},
                       {"via": "registry", "fn": f"grouped_{kind}", "ids": f"{np.dtype(dt).name} ids, group of 130", "dtype": "-" if col is None else str(col.dtype)})
            except Exception as e:  # noqa: BLE001
                tr.add({"k": "unknown", "err": type(e).__name__}, {"via": "registry", "fn": f"grouped_{kind}", "raised": f"{type(e).__name__}: {e}"[:120], "ids": np.dtype(dt).name, "dtype": "-" if col is None else str(col.dtype)})
    return tr


def _registry_job(job):
    states, seed = job
    return registry_events(states, seed)


def api_job(j):
    """User rule + user group specs (all kinds x all grouping levels) + real aggregation nodes."""
    date, seed, tid, work = j
    rnd = random.Random(seed)
    df, P = make_population(date, rnd, k=3)
    info = {"tid": tid, "date": date, "persons": P, "n": len(df)}
    data_cols = list(df)
    levels = ["hh", "wthh", "fg", "bg", "eg", "ehe", "sn"]

    def probe_f(bruttolohn_m: float, alter: int) -> float:
        return bruttolohn_m * 0.37 + alter

    def probe_b(alter: int) -> bool:
        return alter > 30

    def probe_i(alter: int) -> int:
        return alter % 7

    p, f = gs.env(date)
    functions = dict(f)
    functions.update({"probe_f": probe_f, "probe_b": probe_b, "probe_i": probe_i})
    ug = {}
    for lv in levels:
        ug[f"pf_sum_{lv}"] = {"aggr": "sum", "source_col": "probe_f"}
        ug[f"pf_mean_{lv}"] = {"aggr": "mean", "source_col": "probe_f"}
        ug[f"pf_max_{lv}"] = {"aggr": "max", "source_col": "probe_f"}
        ug[f"pi_min_{lv}"] = {"aggr": "min", "source_col": "probe_i"}
        ug[f"pb_any_{lv}"] = {"aggr": "any", "source_col": "probe_b"}
        ug[f"pb_all_{lv}"] = {"aggr": "all", "source_col": "probe_b"}
        ug[f"pb_sum_{lv}"] = {"aggr": "sum", "source_col": "probe_b"}
        ug[f"pn_count_{lv}"] = {"aggr": "count"}
    # a user spec that competes with a built-in one (user must win) and an automatic sum
    from _gettsim.functions_loader import load_aggregation_dict

    builtin = load_aggregation_dict("aggregate_by_group")
    comp = sorted(k for k, v in builtin.items() if v["aggr"] == "sum" and v.get("source_col") in f or v.get("source_col") in data_cols)
    if comp:
        c = rnd.choice(comp)
        ug[c] = {"aggr": "max", "source_col": builtin[c]["source_col"]}
        info["competing_spec"] = c
    up = {"probe_by_parent_m": {"aggr": "sum", "source_col": "probe_f", "p_id_to_aggregate_by": "p_id_elternteil_1"}}
    auto = ["probe_f_hh", "probe_i_bg", "bruttolohn_m_fg"]
    targets0 = gs.default_targets() + list(ug) + list(up) + auto
    import derive

    case = derive.export_case(f"c11:{tid}", date, data_cols, targets0, ug, up, functions=functions)
    out, r = derive.judge([case], work, f"c11_{tid}")
    d = out[0]
    info["derive"] = {k: d[k] for k in ("missing", "extra", "args", "ov", "round")}
    aggs = [a for a in d["aggs"]]
    need = set()
    for n, kind, src, gid in aggs:
        need |= {n, gid} | ({src} if src else set())
    if True:
        ok_nodes, _ = gs.all_nodes(date, data_cols, functions=functions, extra_targets=list(ug) + list(up) + auto, group_specs=ug, pid_specs=up)
    oks = set(ok_nodes) | set(data_cols)
    aggs = [a for a in aggs if a[0] in oks and (not a[2] or a[2] in oks) and a[3] in oks]
    targets = sorted({x for a in aggs for x in (a[0], a[2], a[3]) if x and x not in data_cols})
    try:
        res, excluded = gs.compute_all(df, date, targets=targets, functions=functions, aggregate_by_group_specs=ug, aggregate_by_p_id_specs=up, rounding=True)
    except Exception as e:  # noqa: BLE001
        info["base_error"] = f"{type(e).__name__}: {str(e)[:200]}"
        return info, None
    tr = arith.ArithTrace()

    def colv(name):
        return res[name].to_numpy() if name in res else df[name].to_numpy()

    for n, kind, src, gid in aggs:
        if n not in res or (src and src not in res and src not in df) or (gid not in res and gid not in df):
            continue
        if kind.startswith("grp_"):
            k = kind[4:]
            srcv = colv(src) if src else np.zeros(len(df))
            tr.add({"k": "agg", "node": n, "kind": k, "src": tr.cells(srcv), "ids": [int(x) for x in colv(gid)], "obs": tr.cells(colv(n))},
                   {"via": "api", "node": n, "kind": k, "src": src, "gid": gid, "date": date, "tid": tid})
        elif kind == "pid_sum":
            tr.add({"k": "pidsum", "node": n, "src": tr.cells(colv(src)), "ptr": [int(x) for x in colv(gid)], "pid": [int(x) for x in df["p_id"]], "obs": tr.cells(colv(n))},
                   {"via": "api", "node": n, "kind": "pid_sum", "src": src, "ptr": gid, "date": date, "tid": tid})
    info["n_aggs"] = len(tr.events)
    info["levels"] = sorted({m["gid"] for m in tr.meta if "gid" in m})
    return info, tr


def run(tier):
    chk = Check("C11", tier, LEVEL)
    rnd = random.Random(chk.seed * 65537 + 11)
    quick = tier == "quick"
    mc_dag.run_mc(chk, quick, which="C11")
    import toy

    for m_ in toy.run_toy(chk, quick, rnd, "C11", kinds=['grp_sum', 'grp_max'])[:5]:
        chk.violation(f"C11|toy-universe|target={m_['target']}|{m_['what'][:40]}", f"toy universe (MC_Dag configuration {m_['id']}): {m_['what']} for target {m_['target']}", m_)
    # ---- A: MC_Aggregate + dump
    cfg = tlc.SPEC_DIR / f"_gen_agg_{os.getpid()}.cfg"
    cfg.write_text(f"CONSTANTS\n  MaxRows = {4 if quick else 5}\n  Vals = {{0, 1, 3}}\n  Ids = {{0, 2, 5}}\nSPECIFICATION Spec\nINVARIANT InvConservation\nINVARIANT InvConstant\nINVARIANT InvSelfConsistent\nINVARIANT InvMembership\nCHECK_DEADLOCK FALSE\n")
    dump = chk.work / "agg"
    try:
        res = tlc.run("MC_Aggregate", cfg.name, workdir=chk.work, workers=16, dump=dump, timeout=3000)
    finally:
        cfg.unlink(missing_ok=True)
    if res.violated:
        chk.violation(f"C11|spec-theorem|{','.join(res.violated)}", "the specified aggregates violate a theorem", {"out": res.out[-2500:]})
        return chk.finish()
    chk.add_mc(res, "MC_Aggregate")
    states = [s for s in tlaval.read_dump(str(dump) + ".dump") if s.get("col")]
    Path(str(dump) + ".dump").unlink()
    if quick:
        states = [s for s in states if len(s["col"]) <= 3] + rnd.sample([s for s in states if len(s["col"]) == 4], 1200)
    elif len(states) > 30000:
        states = [s for s in states if len(s["col"]) <= 4] + rnd.sample([s for s in states if len(s["col"]) == 5], 20000)
    nchunk = 16
    chunks = [states[i::nchunk] for i in range(nchunk)]
    traces = pool_map(_registry_job, [(c, rnd.randrange(1 << 30)) for c in chunks if c]) + [narrow_id_events()]
    nreg = sum(len(t.events) for t in traces)
    chk.count(nreg)
    bad, tstates = arith.judge(traces, chk.work, "reg")
    chk.cov["traces_validated_against_impl"] += nreg
    chk.notes["trace_tlc_states"] = tstates
    seen = set()
    for meta, clause in bad:
        sig = f"C11|{clause}|fn={meta['fn']}|dtype={meta.get('dtype', '-')}"
        if sig in seen:
            continue
        seen.add(sig)
        chk.violation(sig, f"{meta['fn']} differs from its mathematical definition" + (f" (raised {meta['raised']})" if "raised" in meta else ""), meta)
    for s in states:
        if len(set(s["ids"])) < len(s["ids"]) and len(set(s["ids"])) > 1:
            chk.distinct(("s", tuple(s["col"]), tuple(s["ids"])))
    # ---- C: API level
    dates = ["2023-01-01"] + rnd.sample([d for d in DATES if d != "2023-01-01"], 1 if quick else len(DATES) - 1)
    njobs = 8 if quick else 80
    jobs = [(dates[t % len(dates)], rnd.randrange(1 << 30), t, str(chk.work)) for t in range(njobs)]
    jobs.sort()
    outs = pool_map(api_job, jobs)
    traces2 = []
    for info, tr in outs:
        if "base_error" in info:
            chk.violation(f"C11|api-raised|{info['base_error'][:60]}", "computing the aggregation nodes raised", info)
            continue
        traces2.append(tr)
        chk.count(info["n_aggs"])
        for k in ("args", "round", "ov"):
            for x in info["derive"][k]:
                nm, kind = (x[0], x[1]) if isinstance(x, list) else (x, "?")
                if str(kind).startswith(("grp_", "pid_")):
                    chk.violation(f"C11|wiring|node={nm}", f"aggregation node {nm} is wired to other arguments than the specification (source column / group id / precedence)", {"date": info["date"], "derive": info["derive"]})
        if info["derive"]["missing"] or info["derive"]["extra"]:
            chk.notes.setdefault("derive_divergences", []).append({"date": info["date"], "missing": info["derive"]["missing"][:5], "extra": info["derive"]["extra"][:5]})
        chk.sample({"date": info["date"], "persons": info["n"], "aggregation_nodes_checked": info["n_aggs"], "levels": info["levels"], "competing_user_spec": info.get("competing_spec")})
    bad2, tstates2 = arith.judge(traces2, chk.work, "api")
    chk.cov["traces_validated_against_impl"] += sum(len(t.events) for t in traces2)
    chk.notes["trace_tlc_states"] += tstates2
    seen = set()
    for meta, clause in bad2:
        sig = f"C11|{clause}|node={meta['node']}"
        if sig in seen:
            continue
        seen.add(sig)
        chk.violation(sig, f"aggregation node {meta['node']} ({meta['kind']} of {meta.get('src')} by {meta.get('gid', meta.get('ptr'))}) differs from its definition at {meta['date']}", meta)
    for t in traces2:
        for m in t.meta:
            chk.distinct(("n", m["node"]))
    chk.cov["rule"] = (
        "registry: every MC_Aggregate state (column x group assignment, <= 4 rows quick / 5 thorough) through all 7 grouped_* kinds with float/int/bool/date columns, sum_by_p_id and join_numpy with sparse labels and negative pointers; "
        "API: all aggregation nodes that Derive.tla derives for the call (built-in specs, user specs of all 7 kinds on all 7 grouping levels, a user spec competing with a built-in one, automatic sums, pointer sums) recomputed from the parent columns of the same run; "
        "distinct_nontrivial = distinct states with a multi-member group and >1 group + distinct aggregation nodes"
    )
    chk.assumptions += ["sums/means of floats to 1e-9 relative, everything else exact", "pointer aggregations other than sum raise NotImplementedError in the numpy back end (loud; not exercised)"]
    return chk.finish()


def replay(path):
    d = json.load(open(path))
    print(json.dumps(d["case"], ensure_ascii=False)[:800])
    return run("quick")
