"""C12 — derived units partition correctly.

A  TLC model-checks the reference partitions (nesting, two generations) on every structure.
B  every TLC-enumerated structure is replayed into the implementation's id functions under
   every row order and two p_id/hh_id labellings (plus a sample through the public API).
C  the recorded observations are validated by TLC (Trace_Households) against the reference.
"""
from __future__ import annotations

import json
import random

import units
from common import Check, pool_map

LEVEL = "model_checking"


def short(pop):
    return ";".join(
        f"h{p['hh']}a{p['age']}p{p['partner']}s{p['spouse']}{'g' if p['gv'] else ''}e{p['e1']}.{p['e2']}{'b' if p['eb'] else ''}{'w' if p['wv'] else ''}"
        for p in pop
    )


def collect(chk, pops, rnd, max_orders, label):
    jobs = [(p, rnd.randrange(1 << 30), max_orders) for p in pops]
    outs = pool_map(units.observe_registry_all, jobs, chunksize=max(1, len(jobs) // 64))
    events = [o[0] for o in outs]
    chk.count(sum(o[1] for o in outs))
    chk.notes.setdefault("registry_calls", {})[label] = sum(o[1] for o in outs)
    return events


def report(chk, events, verdicts, prefix, source):
    by_clause = {}
    for idx, clause in verdicts:
        if clause == "generator":
            raise RuntimeError(f"generator produced an ill-formed population: {events[idx]['pop']}")
        if not clause.startswith(prefix):
            continue
        by_clause.setdefault(clause, []).append(idx)
    for clause, idxs in sorted(by_clause.items()):
        idxs.sort(key=lambda i: (len(events[i]["pop"]), short(events[i]["pop"])))
        ev = events[idxs[0]]
        sig = f"{chk.pid}|{clause}|via={source}"
        chk.violation(
            sig,
            f"{len(idxs)} structure(s); smallest: {short(ev['pop'])}",
            {"clause": clause, "source": source, "pop": ev["pop"], "obs": ev["obs"], "n_structures": len(idxs),
             "more": [short(events[i]["pop"]) for i in idxs[1:6]]},
        )


def run(tier):
    chk = Check("C12", tier, LEVEL)
    rnd = random.Random(chk.seed * 7919 + 12)
    quick = tier == "quick"
    # ---- A + enumeration
    plans = [
        ("fam3", dict(maxn=3, ages=[24, 25], nhh=2, family=True, marriage=False), None),
        ("mar", dict(maxn=3 if quick else 4, ages=[40], nhh=2, family=False, marriage=True), None),
        ("fam4", dict(maxn=4, ages=[24, 25], nhh=2, family=True, marriage=False), None),
    ]
    all_events = []
    for name, kw, mo in plans:
        res, pops = units.enumerate_structures(chk.work, name, **kw)
        if res.violated:
            chk.violation(f"C12|spec-invariant|{name}|{','.join(res.violated)}", "reference partitions violate a nesting theorem", {"out": res.out[-3000:]})
            continue
        chk.add_mc(res, f"MC_Households[{name}]")
        if name == "fam4":
            pops = [p for p in pops if len(p) == 4]
            if quick:
                pops = rnd.sample(pops, min(1500, len(pops)))
        ev = collect(chk, pops, rnd, mo, name)
        all_events += ev
    if not quick:
        # mixed dimensions (family + marriage) up to 3 persons, exhaustively
        res, pops = units.enumerate_structures(chk.work, "mix3", maxn=3, ages=[17, 24, 25, 40], nhh=2, family=True, marriage=True)
        if res.violated:
            chk.violation(f"C12|spec-invariant|mix3|{','.join(res.violated)}", "reference partitions violate a nesting theorem", {"out": res.out[-3000:]})
        else:
            chk.add_mc(res, "MC_Households[mix3]")
            pops = rnd.sample(pops, min(20000, len(pops)))
            all_events += collect(chk, pops, rnd, None, "mix3")
    if not quick:
        # beyond the exhaustive bound: random behaviours of the model (tlc -simulate) up to 8 persons, all dimensions on
        for n, num, mo in ((5, 480, 120), (6, 240, 60), (8, 160, 40)):
            gen, viol, pops = units.simulate_structures(chk.work, f"sim{n}", n, [10, 17, 24, 25, 40, 70], 2, True, True, num, chk.seed + n)
            if viol:
                chk.violation(f"C12|spec-invariant|sim{n}|{','.join(sorted(set(viol)))}", "reference partitions violate a nesting theorem on a simulated structure", {})
            chk.cov["states"] = chk.cov.get("states", 0) + gen
            chk.cov["transitions"] = chk.cov.get("transitions", 0) + gen
            chk.notes.setdefault("simulated_structures", {})[n] = len(pops)
            all_events += collect(chk, pops, rnd, mo, f"sim{n}")
    verdicts, st = units.judge(all_events, chk.work, "reg")
    chk.cov["traces_validated_against_impl"] += st["judged"]
    chk.notes["unambiguous_structures_judged"] = st["unambiguous"]
    chk.notes["trace_tlc_states"] = st["tlc_states"]
    for e in all_events:
        if len(e["pop"]) >= 2:
            chk.distinct(short(e["pop"]))
    report(chk, all_events, verdicts, "ref:", "registry")
    report(chk, all_events, verdicts, "nest:", "registry")
    report(chk, all_events, verdicts, "raised", "registry")
    if st["unambiguous"] == 0:
        raise RuntimeError("vacuous: no unambiguous structure judged")
    # ---- sample through the public API
    cand = [e["pop"] for e in all_events if len(e["pop"]) >= 3]
    k = 24 if quick else 200
    sample = rnd.sample(cand, min(k, len(cand)))
    jobs = [(p, rnd.randrange(1 << 30)) for p in sample]
    api_events = pool_map(_api_job, jobs)
    chk.count(sum(len(e["obs"]) for e in api_events))
    v2, st2 = units.judge(api_events, chk.work, "api")
    chk.cov["traces_validated_against_impl"] += st2["judged"]
    report(chk, api_events, v2, "ref:", "api")
    report(chk, api_events, v2, "nest:", "api")
    report(chk, api_events, v2, "raised", "api")
    for e in all_events[:2] + api_events[:2]:
        chk.sample({"pop": short(e["pop"]), "observations": e["obs"][:2]})
    chk.cov["rule"] = (
        "structures = all reachable states of MC_Households (AddPerson) in the listed configurations; each is run through "
        "eg/ehe/sn/fg/bg/wthh id functions under every row order (n<=4) and 2 labellings; distinct_nontrivial = distinct "
        "structures with >= 2 persons; evaluations = implementation runs (structure x order x labelling)"
    )
    chk.cov["exhaustive"] = not quick
    chk.assumptions += [
        "ages only matter through the under-25 test (ages 24/25, plus 17/40 in the mixed model)",
        "Unambiguous(pop): structures where the statement's unit definition is ambiguous are judged for C01 only",
        "fewer than 100 self-sufficient children per family (id stride)",
    ]
    return chk.finish()


def _api_job(job):
    pop, seed = job
    rnd = random.Random(seed)
    n = len(pop)
    pid = units.labelling(n, "sparse", rnd)
    obs = []
    # the unit definitions do not depend on the policy date: the API observations rotate through early and late dates
    for k_, order in enumerate(units.orders_for(n, rnd, 3)):
        obs.append(units.run_api(pop, list(order), pid, ["2023-01-01", "2006-01-01", "2012-01-01"][(seed + k_) % 3], {h: (5 * h + 4) % 17 for h in range(12)}))
    return {"pop": pop, "obs": obs}


def replay(path):
    case = json.load(open(path))["case"]
    chk = Check("C12", "quick", LEVEL)
    rnd = random.Random(0)
    ev, cnt = units.observe_registry_all((case["pop"], 1, None))
    verdicts, st = units.judge([ev], chk.work, "replay")
    print("verdicts:", sorted({c for _, c in verdicts}))
    report(chk, [ev], verdicts, "", "registry")
    chk.count(cnt)
    chk.distinct("replay")
    chk.distinct("replay2")
    chk.add_mc(type("R", (), {"distinct": st["tlc_states"], "generated": st["tlc_states"], "depth": 0, "wall_s": st["tlc_s"], "coverage": {}})(), "Trace_Households")
    return 1 if chk.violations else 0
