"""C15 — group-level columns have one value per group.

A/C static  Levels.tla: TLC types every node of the real function table with the set of
            groupings within which it is certainly constant (nesting of the units) and lists
            the group-suffixed nodes it cannot prove constant: CANDIDATES (evidence only).
Exploration witness populations whose group members differ in every individual-level input
            (several structures in one household, unmarried couples, spouses living apart,
            self-sufficient children); every group-suffixed node of every run is checked by
            TLC (Trace_Levels) for one value per group; violations are reduced to root causes.
"""
from __future__ import annotations

import json
import random

import numpy as np

import derive
import gs
import popgen
import runs
import tlc
from c04 import DATES
from common import Check, pool_map

LEVEL = "exploration"
NWIT = 8   # deterministic witness jobs: one per regime date (gs.regime_dates) + 2023-01-01 and 2015-01-01
GROUPS = ["hh", "wthh", "fg", "bg", "eg", "ehe", "sn"]


def suffix_group(n):
    g = ""
    for x in GROUPS:
        if n.endswith("_" + x):
            g = x
    return g


def cellstr(v):
    if isinstance(v, (float, np.floating)):
        return float(v).hex()
    if isinstance(v, (np.generic,)):
        v = v.item()
    return repr(v)


def job(j):
    date, seed, tid, work = j
    rnd = random.Random(seed)
    kinds = ["family_3", "patchwork", "self_sufficient_child", "three_gen", "couple_unmarried", "couple_married", "spouses_apart", "single_parent_2", "family_2", "adult_child", "stepchild"]
    structs = [popgen.CANON[rnd.choice(kinds)] for _ in range(rnd.choice([2, 3]))]
    prof = None
    if tid < NWIT:
        # deterministic witnesses: members of every unit alternate in the individual-level flags that the known
        # findings hinge on, so that those findings are observed on every run
        structs = [popgen.CANON["family_2"], popgen.CANON["couple_unmarried"], popgen.CANON["single_parent_2"], popgen.CANON["stepchild_elsewhere"], popgen.CANON["self_sufficient_child"]]
        # wealth between the limits of needs units of different size inside one Wohngeld part-household (a child covering its own
        # needs next to its parent): 40000 + 25000 + 15000 lies between the limit for one and for two persons
        prof = {"vermögen_bedürft": lambda i, r, d, rr: 40000.0 if d["alter"] >= 25 else (25000.0 if d.get("eigenbedarf_gedeckt") else 15000.0),
                "bruttolohn_m": lambda i, r, d, rr: 1500.0 if d["alter"] >= 25 else (1000.0 if d.get("eigenbedarf_gedeckt") else 0.0),"bürgerg_bezug_vorj": lambda i, r, d, rr: i % 2 == 0, "alleinerz": lambda i, r, d, rr: i % 2 == 1 and d["alter"] >= 18,
                "monate_elterngeldbezug": lambda i, r, d, rr: (3 * i) % 14 if d["alter"] >= 18 else 0, "elterngeld_claimed": lambda i, r, d, rr: d["alter"] >= 18}
    P = popgen.compose(structs, date, rnd, sparse=rnd.random() < 0.5, profile=prof)
    if rnd.random() < 0.6 and tid % 3 != 0:   # several units in ONE household (every third population keeps its households apart)
        hh0 = P[0]
        for p in P:
            p["hh_id"] = 0
            for c in ("bruttokaltmiete_m_hh", "heizkosten_m_hh", "wohnfläche_hh", "bewohnt_eigentum_hh", "immobilie_baujahr_hh", "mietstufe", "wohnort_ost"):
                p[c] = hh0[c]
    if tid % 2 == 1:
        # survey-style household labels and interleaved rows: the members of a unit are not adjacent and the labels are far
        # larger than the number of rows
        relabel = {}
        for p in P:
            relabel.setdefault(p["hh_id"], 1001 + 37 * len(relabel))
        for p in P:
            p["hh_id"] = relabel[p["hh_id"]]
        byhh = {}
        for p in P:
            byhh.setdefault(p["hh_id"], []).append(p)
        rows = []
        while any(byhh.values()):
            for h in list(byhh):
                if byhh[h]:
                    rows.append(byhh[h].pop(0))
        P = rows
    df = gs.build_population(P, date)
    info = {"tid": tid, "date": date, "persons": P, "n": len(df)}
    data_cols = list(df)
    case = derive.export_case(f"c15:{tid}", date, data_cols, gs.default_targets())
    out, r = derive.judge([case], work, f"c15_{tid}")
    d = out[0]
    kind = {}
    for n, k, s, g in d["aggs"]:
        kind[n] = k
    for n, s, fr, to in d["times"]:
        kind[n] = "time"
    fno, fo = gs.function_table(date, data_cols, gs.default_targets())
    nodes = [{"n": n, "a": gs.arg_names(f), "kind": kind.get(n, "grouping" if n.endswith("_id") and n[:-3] in GROUPS else "rule")} for n, f in fno.items()]
    events = [{"k": "dag", "nodes": nodes, "data": data_cols}]
    targets, args = runs.nonderived_nodes(date, df)
    try:
        res, excluded = gs.compute_all(df, date, targets=targets, rounding=True)
    except Exception as e:  # noqa: BLE001
        info["base_error"] = f"{type(e).__name__}: {str(e)[:200]}"
        return info
    cols = []
    for c in res.columns:
        g = suffix_group(c)
        if not g:
            continue
        idc = g + "_id"
        ids = res[idc].tolist() if idc in res else (df[idc].tolist() if idc in df else None)
        if ids is None:
            continue
        events.append({"k": "col", "node": c, "group": g, "ids": [int(x) for x in ids], "vals": [cellstr(v) for v in res[c].tolist()]})
        cols.append(c)
    tf, of = f"{work}/lev_{tid}.json", f"{work}/lev_{tid}.out.json"
    tlc.write_json(tf, {"events": events})
    rr = tlc.run("Trace_Levels", "Trace_Levels.cfg", workdir=work, env={"TRACE_FILE": tf, "OUT_FILE": of}, timeout=1800)
    if rr.violated:
        raise tlc.TLCFailure(f"Trace_Levels: {rr.violated}\n{rr.out[-1500:]}")
    o = tlc.read_json(of)
    info["candidates"] = sorted(o["candidates"])
    badnodes = sorted({events[b["e"] - 1]["node"] for b in o["bad"]})
    info["bad"] = badnodes
    # root causes: failing nodes none of whose group-suffixed arguments fail
    info["roots"] = [n for n in badnodes if not any(a in badnodes for a in args.get(n, []))]
    info["args"] = {n: args.get(n, []) for n in info["roots"]}
    info["ncols"] = len(cols)
    info["tlc_states"] = rr.distinct
    info["multi"] = sum(1 for e in events[1:] if len(set(e["ids"])) < len(e["ids"]))
    return info


def run(tier):
    chk = Check("C15", tier, LEVEL)
    rnd = random.Random(chk.seed * 65537 + 15)
    quick = tier == "quick"
    dates = ["2023-01-01", "2024-01-01"] + rnd.sample([d for d in DATES if d not in ("2023-01-01", "2024-01-01")], 2 if quick else len(DATES) - 2)
    njobs = 16 if quick else 300
    # every dated version of every rule is in force on one of the regime dates: a rule version that only exists in part of the
    # supported window (from 2009, when the default target set becomes computable) is exercised by a deterministic witness
    wit = (["2023-01-01", "2015-01-01"] + list(gs.regime_dates()))[:NWIT]
    njobs = max(njobs, len(wit) + 10)
    outs = pool_map(job, sorted([((wit[t] if t < len(wit) else dates[t % len(dates)]), rnd.randrange(1 << 30), t, str(chk.work)) for t in range(njobs)]))
    chk.notes["witness_dates"] = wit
    cands = set()
    seen = set()
    for info in outs:
        if "base_error" in info:
            chk.notes.setdefault("base_errors", []).append({k: info[k] for k in ("date", "base_error")})
            continue
        chk.count(info["ncols"])
        chk.cov["traces_validated_against_impl"] += 1
        chk.cov["states"] = chk.cov.get("states", 0) + info["tlc_states"]
        chk.cov["transitions"] = chk.cov.get("transitions", 0) + info["tlc_states"]
        cands |= {(c, info["date"][:4]) for c in info["candidates"]}
        if info["multi"]:
            chk.distinct(f"{info['tid']}")
        for n in info["roots"]:
            since = "from=2023" if info["date"] >= "2023-01-01" else "before=2023"
            sig = f"C15|not-constant|node={n}"
            if (sig, since) in seen:
                continue
            seen.add((sig, since))
            chk.violation(sig, f"{n} takes different values within one {suffix_group(n)} unit (date {info['date']}; arguments {info['args'][n]})", {"date": info["date"], "persons": info["persons"], "node": n, "args": info["args"][n], "all_failing": info["bad"][:30]})
        chk.sample({"date": info["date"], "persons": info["n"], "group_columns_checked": info["ncols"], "columns_with_multi_member_groups": info["multi"]})
    chk.notes["static_candidates"] = sorted({c for c, _ in cands})
    chk.notes["dates"] = dates
    chk.cov["rule"] = (
        "per population (2-3 structures, often merged into one household, members differing in every individual-level input): the function table typed by Levels.tla (candidates) and every group-suffixed non-time-derived node with the id column of its group checked for one value per group; "
        "violations reduced to root causes (failing nodes none of whose arguments fail); distinct_nontrivial = populations with at least one multi-member group"
    )
    chk.assumptions += ["values compared exactly", "household-level inputs (incl. mietstufe, wohnort_ost) are generated constant per household"]
    return chk.finish()


def replay(path):
    case = json.load(open(path))["case"]
    df = gs.build_population(case["persons"], case["date"])
    n = case["node"]
    g = suffix_group(n)
    res = gs.compute(df, case["date"], targets=[n, g + "_id"] if g != "hh" else [n])
    ids = res[g + "_id"] if g + "_id" in res else df[g + "_id"]
    bad = res.groupby(ids.to_numpy())[n].nunique().max() > 1
    print(res.assign(gid=ids.to_numpy()))
    return 1 if bad else 0
