"""C20 — malformed input is rejected, type coercion is lossless (fault enumeration).

A  MC_Validate: every fault action leads to ~Valid, benign re-encodings preserve Valid.
B  every enumerated table (base x single fault at every eligible cell, pairs of faults, faults
   combined with benign re-encodings) is built as a DataFrame and passed to
   compute_taxes_and_transfers; TLC (Trace_Validate) judges raised / not raised and, for
   well-formed re-encodings, identical results and the conversion warning.
"""
from __future__ import annotations

import hashlib
import json
import random
from pathlib import Path

import numpy as np
import pandas as pd

import gs
import runs
import tlaval
import tlc
from common import Check, pool_map

LEVEL = "fault_enumeration"
DATE = "2023-01-01"
# a target set that touches neither pointers nor group aggregates: a malformed table must be rejected by the validation itself,
# not by whichever rule happens to stumble over it later
NARROW = ["eink_st_y_sn", "soli_st_y_sn"]


def materialise(t):
    P = []
    for r in t["rows"]:
        child = r["e1"] != -1 or r["e2"] != -1
        P.append(
            {
                "p_id": r["pid"], "hh_id": r["hh"], "alter": 8 if child else 40, "kind": bool(child),
                "p_id_ehepartner": r["sp"], "p_id_einstandspartner": r["pa"], "p_id_elternteil_1": r["e1"], "p_id_elternteil_2": r["e2"],
                "gemeinsam_veranlagt": bool(r["gv"]), "bruttolohn_m": 0.0 if child else 2000.0 + r["pid"],
                "p_id_kindergeld_empf": r["e1"] if child and r["e1"] >= 0 and r["e1"] != 999 and r["e1"] != r["pid"] else -1,
            }
        )
    # build without validation side effects: pointer values may be dangling on purpose
    df = gs.build_population(P, DATE)
    df["bruttokaltmiete_m_hh"] = [100.0 * r["hv"] for r in t["rows"]]
    dt = t["dtype"]
    if dt.get("alter") == "int_as_float":
        df["alter"] = df["alter"].astype(float)
    elif dt.get("alter") == "int_frac":
        v = df["alter"].astype(float).to_numpy().copy()
        v[-1] += 0.5
        df["alter"] = v
    elif dt.get("alter") == "int_frac_small":      # a value that is almost, but not exactly, an integer
        v = df["alter"].astype(float).to_numpy().copy()
        v[0] += 1e-4
        df["alter"] = v
    elif dt.get("alter") == "object":
        df["alter"] = df["alter"].astype(object)
    if dt.get("kind") == "bool_as_int01":
        df["kind"] = df["kind"].astype(np.int64)
    elif dt.get("kind") == "bool_as_float01":
        df["kind"] = df["kind"].astype(float)
    elif dt.get("kind") == "bool_two":
        v = df["kind"].astype(np.int64).to_numpy().copy()
        v[0] = 2
        df["kind"] = v
    elif dt.get("kind") == "bool_frac":
        v = df["kind"].astype(float).to_numpy().copy()
        v[-1] = 0.5
        df["kind"] = v
    elif dt.get("kind") == "object":
        df["kind"] = df["kind"].astype(object)
    # float columns that are summed over groups directly carry a fractional part that is exact in binary
    adult = df["alter"].to_numpy() >= 18
    df["priv_rentenv_beitr_m"] = np.where(adult, 100.5, 0.0)
    df["vermögen_bedürft"] = np.where(adult, 4000.5, 0.0)
    if dt.get("bruttolohn_m") == "float_as_float32":      # the float inputs stored as float32 (all values exactly representable)
        for c_ in ("bruttolohn_m", "priv_rentenv_beitr_m", "vermögen_bedürft"):
            df[c_] = df[c_].astype(np.float32)
    if dt.get("bruttolohn_m") == "float_as_int":
        df["bruttolohn_m"] = df["bruttolohn_m"].astype(np.int64)
    elif dt.get("bruttolohn_m") == "object":
        df["bruttolohn_m"] = df["bruttolohn_m"].astype(object)
    for c in t["dup"]:
        df = pd.concat([df, df[[c]]], axis=1)
    drop = list(t["dropped"]) + (["p_id"] if t["nopid"] else [])
    if drop:
        df = df.drop(columns=[c for c in drop if c in df.columns])
    return df


def digest(res):
    h = hashlib.sha1()
    for c in sorted(res.columns):
        h.update(c.encode())
        h.update(np.ascontiguousarray(res[c].to_numpy().astype(float)).tobytes())
    return h.hexdigest()


def run_state(st):
    t = st["t"]
    t = {"bi": t["bi"], "ord": t.get("ord", 1), "rows": list(t["rows"]), "nopid": t["nopid"], "dropped": sorted(t["dropped"]), "dup": sorted(t["dup"]), "dtype": dict(t["dtype"])}
    base_t = dict(t)
    ev = {"t": t, "hist": [{"f": h["f"], "a": [str(x) for x in h["a"]]} for h in st["hist"]], "raised": False, "warned": False, "digest": "", "base": "", "error": ""}
    try:
        df = materialise(t)
    except Exception as e:  # noqa: BLE001
        ev["error"] = "materialise:" + type(e).__name__ + ":" + str(e)[:80]
        ev["raised"] = True
        return ev
    narrow = st.get("narrow")
    try:
        res, warned, conv, other = runs.compute_warn(df, DATE, targets=(NARROW if narrow else gs.default_targets()))
        ev["warned"] = bool(conv)
        ev["digest"] = digest(res)
    except Exception as e:  # noqa: BLE001
        ev["raised"] = True
        ev["error"] = type(e).__name__ + ":" + str(e)[:80].replace("\n", " ")
    if narrow:
        ev["hist"] = ev["hist"] + [{"f": "NarrowTargets", "a": []}]
    return ev


BASE_DIGEST = {}


def run(tier):
    chk = Check("C20", tier, LEVEL)
    rnd = random.Random(chk.seed * 65537 + 20)
    quick = tier == "quick"
    dump = chk.work / "val"
    res = tlc.run("MC_Validate", "MC_Validate.cfg" if quick else "MC_Validate_thorough.cfg", workdir=chk.work, workers=16, dump=dump, timeout=1800, coverage=True)
    if res.violated:
        chk.violation(f"C20|spec-theorem|{','.join(res.violated)}", "a fault action leaves the table Valid or a benign action breaks it (fault model error)", {"out": res.out[-2500:]})
        return chk.finish()
    chk.add_mc(res, "MC_Validate")
    chk.require_actions(res, 11, "MC_Validate (10 fault classes + benign re-encoding)")
    states = tlaval.read_dump(str(dump) + ".dump")
    Path(str(dump) + ".dump").unlink()
    nf = lambda s: sum(1 for h in s["hist"] if h["fault"])  # noqa: E731
    base = [s for s in states if len(s["hist"]) == 0]
    single = [s for s in states if len(s["hist"]) == 1]
    double = [s for s in states if len(s["hist"]) == 2]
    triple = [s for s in states if len(s["hist"]) == 3]
    chosen = base + single + rnd.sample(double, min(len(double), 400 if quick else 6000)) + rnd.sample(triple, min(len(triple), 100 if quick else 3000))
    # every single-fault table is also simulated with the narrow target set
    # (except missing columns: which columns are required depends on the targets)
    chosen = chosen + [{**s_, "narrow": True} for s_ in single if s_["hist"][0]["fault"] and s_["hist"][0]["f"] != "DropRequired"]
    events = pool_map(run_state, chosen, chunksize=8)
    # base digests: results for the un-injected base table with the same base index
    bd = {(e["t"]["bi"], e["t"]["ord"]): e["digest"] for e in events if not e["hist"]}
    for e in events:
        e["base"] = bd.get((e["t"]["bi"], e["t"]["ord"]), "")
        if e["hist"] and e["hist"][-1]["f"] == "NarrowTargets":
            e["base"] = e["digest"]          # (only rejection is judged for the narrow runs; all of them are malformed tables)
    chk.count(len(events))
    tf, of = chk.work / "val_trace.json", chk.work / "val_out.json"
    tlc.write_json(tf, events)
    r = tlc.run("Trace_Validate", "Trace_Validate.cfg", workdir=chk.work, env={"TRACE_FILE": str(tf), "OUT_FILE": str(of)}, timeout=3000)
    if r.violated:
        raise tlc.TLCFailure(f"Trace_Validate: {r.violated}\n{r.out[-1500:]}")
    out = tlc.read_json(of)
    chk.cov["traces_validated_against_impl"] += len(events)
    chk.notes["trace_tlc_states"] = r.distinct
    chk.notes["judged"] = out["stats"]
    classes = {}
    for b in out["bad"]:
        e = events[b["e"] - 1]
        fs = "+".join(h["f"] + ("(" + ",".join(a for a in h["a"] if not a.isdigit()) + ")" if any(not a.isdigit() for a in h["a"]) else "") for h in e["hist"]) or "base"
        classes.setdefault((b["c"], fs), []).append(e)
    for (clause, fs), evs in sorted(classes.items()):
        chk.violation(f"C20|{clause}|faults={fs}", f"{len(evs)} injected table(s): {clause} ({evs[0]['error'] or 'no exception'})", {"clause": clause, "faults": evs[0]["hist"], "table": evs[0]["t"], "n": len(evs)})
    errs = {}
    for e in events:
        if e["raised"]:
            errs[e["error"].split(":")[0]] = errs.get(e["error"].split(":")[0], 0) + 1
        if e["hist"]:
            chk.distinct(json.dumps([e["hist"], [r["pid"] for r in e["t"]["rows"]]], sort_keys=True))
    chk.notes["exception_classes"] = errs
    for e in events[4:7]:
        chk.sample({"faults": e["hist"], "rows": e["t"]["rows"], "raised": e["raised"], "error": e["error"]})
    chk.cov["rule"] = (
        "tables = reachable states of MC_Validate: 4 base tables (the two-household one in 2 row orders in quick, 6 in thorough; members of a household need not be adjacent) x every single fault (9 classes) at every eligible cell (all), pairs of faults and fault+benign combinations (seeded sample in quick, larger in thorough); "
        "each passed to compute_taxes_and_transfers with the default targets at 2023-01-01; distinct_nontrivial = distinct injected tables"
    )
    chk.cov["exhaustive"] = False
    chk.assumptions += ["magnitudes <= 1e9 (int -> float conversions exact)", "any exception counts as rejection; its class is recorded", "hh-level input represented by bruttokaltmiete_m_hh, typed columns by alter (int), kind (bool), bruttolohn_m (float)"]
    return chk.finish()


def replay(path):
    case = json.load(open(path))["case"]
    st = {"t": {**case["table"], "dropped": set(case["table"]["dropped"]), "dup": set(case["table"]["dup"])}, "hist": [{"f": h["f"], "a": h["a"], "fault": True} for h in case["faults"]]}
    e = run_state(st)
    print(e["raised"], e["error"], e["warned"])
    return 0 if e["raised"] else 1
