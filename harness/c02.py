"""C02 — unrelated households do not influence each other; identifiers are labels.

A  MC_Households (two-household structures): the reference partitions of a union of closed
   populations are the union of the partitions (definitions are per connected component).
B  registry: TLC-enumerated structures, run alone and next to another structure, with several
   relabellings (covered by the C01/C12 registry runs with 2 labellings; here: union runs).
C  real rule base, all nodes: simulate(A), simulate(A ++ B), simulate(B ++ A), simulate(rho(A))
   validated by TLC (Trace_Sep): identical values per person, same partitions, pointer outputs
   equal modulo rho, same dtype class.
"""
from __future__ import annotations

import json
import random

import numpy as np
import pandas as pd

import enc
import gs
import popgen
import runs
import tables
import tlc
import units
from c04 import DATES
from common import Check, pool_map

LEVEL = "model_checking"
PTR_IN = ["p_id_elternteil_1", "p_id_elternteil_2", "p_id_kindergeld_empf", "p_id_erziehgeld_empf", "p_id_ehepartner", "p_id_einstandspartner", "p_id_betreuungsk_träger"]


def relabel(df, kind, rnd):
    pids = sorted(df["p_id"].tolist())
    hhs = sorted(set(df["hh_id"].tolist()))
    if kind == "shift":
        pm = {p: p + 1000 for p in pids}
        hm = {h: h + 70 for h in hhs}
    elif kind == "reverse":
        pm = dict(zip(pids, reversed(pids)))
        hm = dict(zip(hhs, reversed(hhs)))
    elif kind == "sparse":
        vals = sorted(rnd.sample(range(10, 100000), len(pids)))
        rnd.shuffle(vals)
        pm = dict(zip(pids, vals))
        hv = rnd.sample(range(5, 5000), len(hhs))
        hm = dict(zip(hhs, hv))
    else:
        raise ValueError(kind)
    d = df.copy()
    d["p_id"] = d["p_id"].map(pm).astype(np.int64)
    d["hh_id"] = d["hh_id"].map(hm).astype(np.int64)
    for c in PTR_IN:
        d[c] = d[c].map(lambda v: pm.get(v, v)).astype(np.int64)
    return d, pm


def event(pool, res, ident, cols, tid, run, rho=None, colnames=None):
    ev = tables.table_event(pool, res, ident, cols, colnames=colnames, tid=tid, run=run)
    ev["ident"] = ev.pop("pids")
    rho = rho or {}
    ev["rho_from"] = [int(k) for k in rho]
    ev["rho_to"] = [int(v) for v in rho.values()]
    return ev


def job(j):
    date, seed, tid, work = j
    rnd = random.Random(seed)
    names = list(popgen.CANON)
    sa = [popgen.CANON[rnd.choice(names)] for _ in range(rnd.choice([1, 2]))]
    sb = [popgen.CANON[rnd.choice(names)] for _ in range(rnd.choice([1, 2, 3]))]
    PA = popgen.compose(sa, date, rnd)
    PB = popgen.compose(sb, date, rnd)
    # disjoint identifiers for B
    offp = 500
    offh = 40
    for p in PB:
        p["p_id"] += offp
        p["hh_id"] += offh
        for c in PTR_IN:
            if p.get(c, -1) >= 0:
                p[c] += offp
    A = gs.build_population(PA, date)
    B = gs.build_population(PB, date)
    info = {"tid": tid, "date": date, "nA": len(A), "nB": len(B), "A": PA, "B": PB, "runs": {}, "errors": []}
    nodes, args = runs.nonderived_nodes(date, A)
    try:
        base, excluded = gs.compute_all(A, date, targets=nodes, rounding=True)
    except Exception as e:  # noqa: BLE001
        info["base_error"] = f"{type(e).__name__}: {str(e)[:200]}"
        return info
    cols = list(base.columns)
    pool = enc.Pool()
    events = [event(pool, base, A["p_id"].tolist(), cols, tid, 0, colnames=cols)]
    plans = [("A+B", pd.concat([A, B], ignore_index=True), None), ("B+A", pd.concat([B, A], ignore_index=True), None)]
    # random interleaving that keeps the relative order within A and within B (row order is C01's business)
    inter = pd.concat([A, B], ignore_index=True)
    marks = [0] * len(A) + [1] * len(B)
    rnd.shuffle(marks)
    ia, ib = iter(range(len(A))), iter(range(len(A), len(A) + len(B)))
    order = [next(ia) if m == 0 else next(ib) for m in marks]
    plans.append(("interleaved", inter.iloc[order].reset_index(drop=True), None))
    for kind in ("shift", "reverse", "sparse"):
        d, pm = relabel(A, kind, rnd)
        plans.append((f"rho:{kind}", d, pm))
    d, pm = relabel(pd.concat([B, A], ignore_index=True), "sparse", rnd)
    plans.append(("rho(B+A)", d, pm))
    k = 0
    for name, d, pm in plans:
        k += 1
        try:
            res = gs.compute(d, date, targets=cols)
        except Exception as e:  # noqa: BLE001
            info["errors"].append({"run": name, "error": f"{type(e).__name__}: {str(e)[:160]}"})
            continue
        inv = {v: kk for kk, v in (pm or {}).items()}
        ident = [inv.get(p, p) for p in d["p_id"].tolist()]
        events.append(event(pool, res, ident, cols, tid, k, rho=pm))
        info["runs"][k] = name
    tf, of = f"{work}/sep_{tid}.json", f"{work}/sep_{tid}.out.json"
    tlc.write_json(tf, {"pool": pool.items, "events": events})
    r = tlc.run("Trace_Sep", "Trace_Sep.cfg", workdir=work, env={"TRACE_FILE": tf, "OUT_FILE": of}, timeout=1800)
    if r.violated:
        raise tlc.TLCFailure(f"Trace_Sep: {r.violated}\n{r.out[-1500:]}")
    out = tlc.read_json(of)
    info["bad"] = out["bad"]
    info["compared"] = out["compared"]
    info["tlc_states"] = r.distinct
    info["ncols"] = len(cols)
    return info


def run(tier):
    chk = Check("C02", tier, LEVEL)
    rnd = random.Random(chk.seed * 65537 + 2)
    quick = tier == "quick"
    # A: two-household structures (NHH = 2): reference partitions never join persons of different households
    res, pops = units.enumerate_structures(chk.work, "sep", maxn=3 if quick else 4, ages=[24, 25], nhh=2, family=True, marriage=False)
    if res.violated:
        chk.violation(f"C02|spec-invariant|{','.join(res.violated)}", "reference partitions join unrelated households", {"out": res.out[-2000:]})
    else:
        chk.add_mc(res, "MC_Households[two households: InvNesting incl. fg/bg/wthh within hh]")
    # B: pairs of TLC-enumerated closed structures side by side (second one in other households): the implementation's
    # units of the union must be the reference units (which are per connected component), under all row orders
    small = [p for p in pops if 1 <= len(p) <= (2 if quick else 3)]
    pairs = []
    for _ in range(400 if quick else 4000):
        a, b = rnd.choice(small), rnd.choice(small)
        na = len(a)
        hh_off = 1 + max(r["hh"] for r in a)
        sh = lambda v: 0 if v == 0 else v + na  # noqa: E731
        b2 = [{**r, "hh": r["hh"] + hh_off, "partner": sh(r["partner"]), "spouse": sh(r["spouse"]), "e1": sh(r["e1"]), "e2": sh(r["e2"])} for r in b]
        pairs.append([dict(r) for r in a] + b2)
    # every three-person structure in which per-family counters matter (a child covering its own needs) next to an unrelated
    # single in another household: four persons, so ALL row orders are run (the single between the members of the family)
    three = [p for p in pops if len(p) == 3 and any(r["eb"] for r in p) and len({r["hh"] for r in p}) == 1]
    for a in three:
        pairs.append([dict(r) for r in a] + [{**dict(a[0]), "hh": 1 + max(r["hh"] for r in a), "partner": 0, "spouse": 0, "e1": 0, "e2": 0, "eb": False, "gv": False}])
    chk.notes["three_person_families_with_own_needs_child_next_to_a_single"] = len(three)
    from c12 import collect, short

    ev = collect(chk, pairs, rnd, 24, "pairs")
    verdicts, st = units.judge(ev, chk.work, "pairs")
    chk.cov["traces_validated_against_impl"] += st["judged"]
    seen_pairs = set()
    for idx, clause in verdicts:
        if clause == "generator":
            raise RuntimeError("generator produced an ill-formed union of structures")
        if clause.startswith(("ref:", "nest:", "raised")) and clause not in seen_pairs:
            seen_pairs.add(clause)
            chk.violation(f"C02|union-{clause}|via=registry", f"units of two unrelated structures simulated together differ from the per-structure reference; smallest: {short(ev[idx]['pop'])}", {"pop": ev[idx]["pop"], "obs": ev[idx]["obs"], "clause": clause})
    for e in ev:
        chk.distinct("u:" + short(e["pop"]))
    dates = ["2023-01-01"] + rnd.sample([d for d in DATES if d != "2023-01-01"], 2 if quick else len(DATES) - 1)
    njobs = 16 if quick else 200
    jobs = [(dates[t % len(dates)], rnd.randrange(1 << 30), t, str(chk.work)) for t in range(njobs)]
    jobs.sort()
    outs = pool_map(job, jobs)
    for info in outs:
        if "base_error" in info:
            chk.notes.setdefault("base_errors", []).append({k: info[k] for k in ("date", "base_error")})
            continue
        chk.count(len(info["runs"]) + 1)
        chk.cov["traces_validated_against_impl"] += 1
        chk.notes["trace_tlc_states"] = chk.notes.get("trace_tlc_states", 0) + info["tlc_states"]
        for k, name in info["runs"].items():
            chk.distinct(f"{info['tid']}:{name}")
        for e in info["errors"]:
            chk.violation(f"C02|raised|run={e['run'].split(':')[0]}|{e['error'][:50]}", f"{e['run']} raised although A alone computes", {"date": info["date"], "A": info["A"], "B": info["B"], **e})
        flips = sorted({b["col"] for b in info["bad"] if b["kind"] == "dtype"})
        if flips:
            # the dtype class of a column changing with unrelated rows is C03's subject; recorded here
            chk.notes.setdefault("dtype_flips", [])
            chk.notes["dtype_flips"] = sorted(set(chk.notes["dtype_flips"]) | set(flips))
        info["bad"] = [b for b in info["bad"] if b["kind"] != "dtype"]
        allbad = sorted({b["col"] for b in info["bad"]})
        if info["bad"]:
            roots = [c for c in allbad if not any(a in allbad for a in gs.all_nodes_for(info["date"], list(gs.input_types()))[1].get(c, []))] or allbad[:3]
            for c in roots:
                bb = [b for b in info["bad"] if b["col"] == c]
                kinds = sorted({b["kind"] for b in bb})
                rn = info["runs"].get(min(b["run"] for b in bb), "?")
                chk.violation(
                    f"C02|{kinds[0]}|node={c}|run={rn.split(':')[0]}",
                    f"{c}: {kinds[0]} of population A changes in run {rn} (date {info['date']}, {len(allbad)} columns affected)",
                    {"date": info["date"], "A": info["A"], "B": info["B"], "run": rn, "node": c, "affected": allbad[:40]},
                )
        chk.sample({"date": info["date"], "persons_A": info["nA"], "persons_B": info["nB"], "runs": list(info["runs"].values()), "columns": info.get("ncols")})
    chk.cov["rule"] = (
        "per pair of dressed populations A (1-2 structures) and B (1-3 structures) with disjoint ids: simulate(A) vs A++B, B++A, a random interleaving, and rho(A) for shift / reverse / sparse (<= 1e5) relabellings of p_id, hh_id and all pointer columns, "
        "and rho(B++A); all non-time-derived nodes; distinct_nontrivial = related runs judged"
    )
    chk.assumptions += ["identifiers <= 1e5 (group aggregation allocates max(id)+1 cells)", "bit-identical values required (same rows in the same relative order give the same float operations)"]
    chk.notes["dates"] = dates
    return chk.finish()


def replay(path):
    case = json.load(open(path))["case"]
    print(json.dumps({k: case[k] for k in ("date", "run", "node")}, ensure_ascii=False))
    return run("quick")
