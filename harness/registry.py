"""Registry of claimed checks (source of MANIFEST.json)."""

CHECKS = {}

NOT_APPLICABLE = {}
