"""Registry of claimed checks (source of MANIFEST.json)."""

CHECKS = {
    "C01": {
        "level": "model_checking",
        "technique": "TLA+ spec of units as order-free set definitions; TLC-enumerated structures x all row orders replayed into the id functions; TLC trace validation (Trace_Households, Trace_Perm) of permuted full simulations",
        "text": "TLC enumerates every pointer structure up to 4 persons (MC_Households); each is run through the implementation's id functions under every row order and two labellings and TLC judges that all orders induce the same partitions. On the real rule base, dressed populations are simulated under rotations (every person first once), reversal, random permutations and three index kinds with all nodes requested, and TLC (Trace_Perm) checks per person equality (bit-identical or 1e-9 relative) and partition equality for id columns.",
        "note": "Bounded: structures <= 4 persons exhaustive (quick: sample of the 4-person ones), API populations sampled; rounding off in API runs; the specification itself contains no row order, so the oracle is equality between runs.",
    },
    "C12": {
        "level": "model_checking",
        "technique": "TLA+ reference partitions (Households.tla) model-checked for nesting; TLC-enumerated structures x all row orders replayed into the implementation; observations validated by TLC against the reference (Trace_Households)",
        "text": "The unit definitions of the statement are written as set-level reference partitions in Households.tla; TLC proves the nesting theorems on every enumerated structure, and every structure (<= 4 persons, all row orders, two labellings; sample through the public API) is replayed into eg/ehe/sn/fg/bg/wthh id code whose observed partitions TLC compares with the reference.",
        "note": "Exhaustive to 4 persons in the family model and the marriage model separately (3 persons mixed in thorough); structures for which the statement's definition is ambiguous (Unambiguous(pop) false) are not judged here; ages only through the under-25 test.",
    },
    "C07": {
        "level": "model_checking",
        "technique": "TLA+ spec of parameter resolution and rule selection by date (Timeline.tla); TLC model check on abstract timelines (MC_Timeline) replayed into the YAML loader; TLC trace validation of real environments on all change-day classes (Trace_Timeline)",
        "text": "Timeline.tla specifies, from the raw dated entries alone, the value of every parameter on every day (latest entry, previous chains, cross-file deviations, prior-date look-ups incl. leap days, rounding specs with all fields) and the active implementation of every column name. TLC proves 'constant between change days' on every abstract timeline of MC_Timeline; sampled abstract timelines are written as YAML and resolved by the real loader; environments and rule tables of the real files on every change day, its eve, look-back images, leap days and seeded interior days are validated by TLC against the specification.",
        "note": "Raw YAML entries and decorator dates are law data (trusted input); parsed piecewise schedules compared in raw form here (C18 for parsed form); quick tier covers all change days since 2015 plus a seeded sample of earlier ones, thorough all since 1980.",
    },
    "C04": {
        "level": "model_checking",
        "technique": "TLA+ spec of the compile pipeline (Derive.tla/Dag.tla) model-checked for target independence on a small name universe (MC_Dag); TLC trace validation of real runs with varying target sets/options (Trace_Runs)",
        "text": "MC_Dag: TLC enumerates every configuration of a small universe of rules, data columns and aggregation specs and checks on symbolic values that no additional target changes a value or makes it uncomputable. On the real rule base every population is run with all nodes and then with single targets, seeded target subsets, a target that creates an automatic group sum, debug, check_minimal_specification, reversed target order and unused extra data columns; TLC (Trace_Runs) checks that common columns are identical and that the result has exactly the requested columns and all rows.",
        "note": "Universe of <= 9 candidate rules / 5 data columns (well-formedness W1/W2 assumed, see DESIGN §4 C04); real-DAG target sets are seeded samples; identical = same exact value.",
    },
    "C05": {
        "level": "model_checking",
        "technique": "substitution lemma model-checked on the specified pipeline (MC_Dag OverrideEquivalence); TLC trace validation of override runs on the real DAG (Trace_Runs relation override)",
        "text": "MC_Dag proves on symbolic values that supplying any node's computed value as data leaves every target unchanged in every configuration of the small universe. On the real rule base, sampled (thorough: many) nodes are supplied as data with their computed column; TLC checks that the overlap warning names the column and that all other columns are identical (1e-9 for descendants of other time units of the supplied flow).",
        "note": "The supplied column is not requested as a target itself (that raises MissingFunctionsError on the pinned tree: loud, see DESIGN F8); nodes sampled per run, all nodes over time via seeds.",
    },
    "C06": {
        "level": "model_checking",
        "technique": "reform locality model-checked on the specified pipeline (MC_Dag ReformLocality); TLC computes users/descendants from the run's function table and validates reform runs (Trace_Runs relation reform/same)",
        "text": "MC_Dag proves that replacing a rule changes only terms that mention it. On the real rule base every parameter group is perturbed and sampled rules are replaced by user functions; TLC derives the users of the group/rule and their descendants from the function table recorded with the base run and accepts iff all other columns are identical; deep copies, cloned functions and a re-run of the untouched environment must change nothing.",
        "note": "Perturbations scale/shift float leaves only; rounding specs untouched; users include rules rounded with the group's rounding spec; reforms that make a rule raise are recorded, not judged.",
    },
    "C11": {
        "level": "model_checking",
        "technique": "TLA+ definitions of the aggregations over exact decimals (Aggregate.tla) model-checked (MC_Aggregate); TLC-enumerated columns replayed into grouped_*/sum_by_p_id/join_numpy; aggregation nodes of real runs (as derived by Derive.tla) recomputed by TLC (Trace_Arith)",
        "text": "Aggregate.tla defines the seven group aggregations, pointer sums and the join as set comprehensions over exact decimals; TLC proves conservation, constancy within groups and membership exactness on every small column/group assignment and each is replayed through the implementation with float, int, bool and date columns, sparse unsorted ids and negative pointers. On the real rule base Derive.tla determines which node is which aggregation (built-in spec, user spec, automatic sum; user beats built-in) and TLC recomputes every aggregation node from the parent columns of the same run on all seven grouping levels.",
        "note": "<= 4 rows exhaustive (5 thorough), real-DAG nodes on seeded populations; sums and means of floats to 1e-9 relative; pointer aggregations other than sum are NotImplemented in the numpy back end (loud).",
    },
    "C13": {
        "level": "model_checking",
        "technique": "converter algebra and wiring model-checked on the specified pipeline (MC_Dag UnitsByFactor); derived time nodes of real runs (as derived by Derive.tla) checked by TLC on exact decimals (Trace_Arith conv); inputs supplied in other units (Trace_Runs close)",
        "text": "MC_Dag proves that all available units of a flow denote one yearly value in every well-formed configuration (derived nodes never shadow rules or data, no cycle). On the real rule base every derived time node is compared with its source by x_u*F(u) = x_v*F(v) on exact decimals at individual and group level with rounding on, the twelve converters are checked on a grid, and flow inputs are supplied in other time units with all default targets required to agree.",
        "note": "1e-12 relative for the factor identity, 1e-9 for alternative-unit inputs; one explicit definition per flow (W1) assumed and true of the rule base.",
    },
    "C10": {
        "level": "model_checking",
        "technique": "TLA+ rounding specification over exact decimals (Round.tla) model-checked (MC_Round) and 'rounded exactly once' on the specified pipeline (MC_Dag); probe rule and every rounded rule of real runs validated by TLC (Trace_Arith round/equal/conv/agg/missingspec)",
        "text": "Round.tla states the grid/direction/offset relation on exact decimals; TLC proves existence, uniqueness (up/down), one-step distance and idempotence on a rational grid, and that in the specified pipeline the rounding wrapper sits on every rule with a key and on no derived node. An identity probe rule goes through the public API for 5 bases x 3 directions x 3 offsets on crafted values with its derived yearly/household nodes, missing specifications must raise, and every rounded rule of the real environment is compared rounded vs unrounded on identical inputs.",
        "note": "`nearest` ties accepted either way; binary floating point slack 1e-9 grid step on the closed side; integer witness supplied by the harness and verified by TLC; rounding specs taken from the environment (their resolution by date is C07).",
    },
    "C09": {
        "level": "translation_validation",
        "technique": "TLA+ transcription of the AST rewrite (Vec.tla Visit) with a scalar and an array semantics (VecSem.tla); TLC enumerates restricted-style programs (MC_Vec) whose predicted outcomes are replayed into the real make_vectorizable; TLC validates rewrite output, values and purity for every internal rule (Trace_Vec)",
        "text": "Vec.tla is the rewrite as implemented and VecSem.tla gives Python's scalar semantics and numpy's array semantics; TLC enumerates thousands of programs of the documented restricted style, predicts for each whether the rewrite rejects it, what the scalar function returns and what the array form returns or whether it raises, and proves that every silent mistranslation is explained by one of three documented quirk classes. Every program is rendered to Python and run through the real make_vectorizable: rewrite outcome, scalar and array results must equal the predictions (0 divergences) and real scalar vs array results are judged by TLC. For every internal rule the transformer's output AST must equal Visit(original), the array form is evaluated on seeded argument arrays against the scalar rule row by row, and the rule's module namespace must be unchanged by the call.",
        "note": "Integer/boolean domain and arrays of length 2 in the model; program menu (13 statement shapes x conditions x expressions), not the full grammar; real rules on seeded arguments (rows on which the scalar rule raises are discarded); structural divergence between transformer and Vec.tla is reported as divergence, a VIOLATION is a silent numeric disagreement or impurity.",
    },
    "C20": {
        "level": "fault_enumeration",
        "technique": "TLA+ fault model (Validate.tla, MC_Validate): TLC enumerates base tables x single and double faults x benign re-encodings and proves each fault breaks Valid; every enumerated table is passed to compute_taxes_and_transfers and TLC judges raised / identical+warned (Trace_Validate)",
        "text": "Validate.tla states well-formedness as the statement lists it; MC_Validate injects every fault class (missing/duplicate p_id, dangling and self pointers in the four foreign-key columns, varying household-level input, contradictory joint assessment, missing required column, duplicate column, lossy dtypes) at every eligible cell of four base tables, in pairs, and combined with lossless re-encodings; TLC proves the vacuity guards (fault => not Valid, benign => Valid). Every table is built as a DataFrame and simulated; TLC accepts iff malformed tables raise and well-formed re-encodings reproduce the base results exactly with a conversion warning.",
        "note": "All single faults, seeded sample of pairs in quick (thousands in thorough); typed columns represented by alter/kind/bruttolohn_m, hh-level input by bruttokaltmiete_m_hh; any exception counts as rejection.",
    },
    "C14": {
        "level": "model_checking",
        "technique": "API-level TLA+ state machine (Gettsim.tla: SetUp / in-place Reform / Compute / Vectorize); TLC-enumerated histories replayed one per fresh interpreter; TLC trace validation of exact result and held-object digests against fresh-interpreter references (Trace_History)",
        "text": "Gettsim.tla specifies that the result of a simulation call is a function of the content of its arguments only and that no call changes what the caller holds. TLC enumerates every history of set-up, in-place reform, simulate and make_vectorizable calls up to the bound; a stratified sample is replayed on the real rule base, one fresh interpreter per history, and each distinct call is also made first in two fresh interpreters with different hash seeds. TLC validates that every call's exact result digest equals its reference, that references agree, and that data (DataFrame and dict of Series needing conversion), parameters and functions have identical content digests before and after every call.",
        "note": "Histories up to 4 (thorough 5) calls over 2 dates, 2 populations, 2 target sets, 1 parameter group, 1 rule; sampled (24 quick / 240 thorough) of the enumerated histories; digests are exact bytes.",
    },
    "C02": {
        "level": "model_checking",
        "technique": "reference partitions of Households.tla model-checked on two-household structures (units never cross households); TLC trace validation of simulate(A) against A++B, B++A, interleavings and relabelled runs on the real rule base (Trace_Sep)",
        "text": "In the specification every result of a person is a function of the records connected to it and identifiers are labels; TLC proves on all two-household structures that the reference units stay inside households. On the real rule base pairs of dressed populations with disjoint ids are simulated alone, concatenated in both orders, interleaved, and under shift / reverse / sparse relabellings of p_id, hh_id and all pointer columns; TLC (Trace_Sep) requires identical values per person, the same partitions for derived ids and pointer-valued outputs equal modulo the relabelling, over all non-time-derived nodes.",
        "note": "Identifiers bounded by 1e5 (group aggregation allocates max(id)+1 cells); pairs of populations are seeded samples; dtype-class flips caused by unrelated rows are recorded here and judged by C03.",
    },
    "C03": {
        "level": "exploration",
        "technique": "TLA+ definition of a rule column and its storage type (Rows.tla), model check of which result sequences a first-row-typed evaluator corrupts (MC_Rows), TLC trace validation of every rule's production column against the scalar rule per row in two adversarial row orders (Trace_Rows with a dtype history variable)",
        "text": "Rows.tla defines Column(f, rows)[i] = f[rows[i]] with the declared storage type; MC_Rows shows which sequences of result kinds are corrupted when the storage type is inferred from the first row (the replay seeds: narrowest result first). For every internal rule (all validity periods) argument rows are drawn, the raw scalar rule is applied to each row alone, and the production column is computed through the public API with the rule as only target in narrowest-first and widest-first order; TLC validates every cell exactly, the dtype against the declared result type and, with a history variable per rule, that the dtype does not depend on the data.",
        "note": "Per-row numeric predicate: exploration level. Argument rows are seeded draws from threshold-oriented value lists (24 rows quick, 120 thorough); rows on which the scalar rule raises are discarded; rules that are already array functions or parameter-only are skipped.",
    },
    "C18": {
        "level": "model_checking",
        "technique": "TLA+ schedules over exact decimals (Schedules.tla): well-formedness, parser obligations and shape lemmas decided per interval from the coefficients by TLC for every dated version; exact evaluation at thresholds +-1 ulp compared with piecewise_polynomial (Trace_Sched)",
        "text": "For every day on which a piecewise_* parameter changes, every schedule in force is presented to TLC in raw form (the law) and in parsed form (the implementation's arrays): TLC checks coverage of the real line with strictly increasing thresholds, that thresholds / rates / progression factors / generated intercepts are what the raw entries determine, and, from the coefficients alone and hence for all real arguments, that the income-tax schedule is zero up to the allowance, continuous, non-decreasing, convex and bounded by the top rate and that the solidarity surcharge is continuous, non-decreasing and at most its nominal rate times the tax plus one cent. The real evaluator (piecewise_polynomial and the tariff helper) is compared with the exact value at every threshold, +-1 ulp, mid-points and extremes.",
        "note": "All change days of piecewise parameters since 1980 (quick: latest 30 + seeded earlier ones); exact decimals with 1e-12 (parser) and 1e-9 (evaluation) relative tolerance for binary floating point; shape lemmas for degree <= 2.",
    },
    "C19": {
        "level": "exploration",
        "technique": "TLA+ regime machine along the wage axis (Contrib.tla) model-checked on abstract parameters (MC_Contrib); wage sweeps of the real contribution rules validated step by step by TLC (Trace_Contrib)",
        "text": "Contrib.tla treats the gross wage as a behaviour and states the statutory shape as step properties: non-negative, zero for marginal employment, non-decreasing, constant above the assessment ceiling, no jump except at the mini-job threshold (the transition-zone contributions meet the regular ones at the upper boundary), employee + employer = total in the zone. TLC proves regime order and boundary inclusiveness on abstract parameters; for every change date of the contribution parameters and east/west x children x age branch one vectorised run over a wage grid plus every statutory boundary +-1 cent is validated step by step, including that the observed mini-job / transition-zone flags equal the regime.",
        "note": "Claimed as exploration: the regime machine is model-checked only on abstract parameters; the real contribution rules are explored by dense wage sweeps judged step by step by TLC. Change dates since 2015 (quick: latest 4 + seeded 4 + 2017-01-01; thorough all, earlier dates recorded only), 2-4 branches each; boundaries read from the environment (C07 binds their resolution); slope bound 1 for NoJump; regular employees only.",
    },
    "C17": {
        "level": "model_checking",
        "technique": "TLA+ transcription of the priority rules (Priority.tla) model-checked exhaustively on a small grid (MC_Priority); every state replayed on the real rules with intermediates supplied as data; full simulations validated per household by TLC (Trace_Priority)",
        "text": "Priority.tla transcribes the priority checks, the ALG II / Kinderzuschlag / Wohngeld payment rules and the Wohngeld part-household split; TLC proves on every household of up to two needs units with amounts 0..2 (every break-even equality occurs) that ALG II never coincides with Wohngeld or Kinderzuschlag, that Grundsicherung excludes the others and that Kinderzuschlag is only paid when it covers the need alone or with Wohngeld. Every state is replayed on the real rules by supplying need, income, entitlements and pensioner facts as data; full simulations of dressed households (wage grid across the break-even region, several needs units per household, pensioner mixes) are checked per household for the same invariants and for 'one part-household per needs unit'.",
        "note": "Grid amounts are multiples of 100 EUR; two-unit states sampled in quick; full-system runs are seeded samples at 3 (thorough 10) dates; the evidence records how many persons actually received each benefit (vacuity guard).",
    },
    "C15": {
        "level": "exploration",
        "technique": "TLA+ constancy-level typing of the real function table over the nesting order of the units (Levels.tla) giving static candidates; every group-suffixed column of witness runs validated by TLC for one value per group (Trace_Levels)",
        "text": "Levels.tla types each node with the set of groupings within which it is certainly constant (data by suffix, aggregates and ids by their group, rules by the meet of their arguments, using the nesting that Households.tla proves) and TLC lists the group-suffixed nodes whose constancy it cannot prove. Witness populations (several structures in one household, unmarried couples, spouses apart, self-sufficient children; members differ in every individual-level input) are simulated with all non-time-derived nodes and TLC checks every group-suffixed column against the id column of its group; violations are reduced to root-cause nodes.",
        "note": "Claimed as exploration: the verdict comes from sampled witness populations judged by TLC; the static typing by TLC over the whole function table yields candidates only (recorded in the evidence). mietstufe and wohnort_ost are treated as household-level facts by the generator. Populations are seeded samples at 4 (thorough 10) dates.",
    },
    "C16": {
        "level": "exploration",
        "technique": "TLA+ predicates Finite / NonNegative / CapOK over exact decimals (Bounds.tla); every column and a table of cap relations of corner-population runs judged by TLC (Trace_Bounds)",
        "text": "Corner populations in six modes (all incomes zero; very large income and wealth; negative rental income; pensioners aged 67-100; couples with 6-10 children; mixed) over the generator's household types are simulated with every node requested and rounding on at several change dates >= 2015; TLC checks every numeric column for finiteness, every default target for non-negativity and 6-8 cap relations between columns and parameters of the date (benefit after priority <= before, paid <= entitlement, contribution <= rate x ceiling, Elterngeld <= maximum + bonuses, Kindergeld <= highest rate x claims).",
        "note": "Per-row numeric predicates on sampled corner inputs: exploration level. The cap table is hand-written and partial; 24 populations quick / 360 thorough.",
    },
    "C08": {
        "level": "model_checking",
        "technique": "Derive.tla/Complete.tla: TLC derives the dependency graph of the default targets for the rules active on each change-day class and checks acyclicity, documented leaves and rounding specifications (Trace_Complete); default targets computed on branch-diverse populations at every class",
        "text": "For every day on which anything changes from 2015-01-01 on (parameter entry, rounding entry, rule start, rule end + 1) and its eve, TLC derives from the rules active that day, the built-in aggregation specs, the documented inputs and the default targets the function table and its pruned dependency graph and checks that no target is missing, the graph is acyclic, every leaf is a documented input variable and every rounded rule in it has a rounding specification that day. At each such day the default targets are computed on branch-diverse populations (all household types, table-boundary values of dynamic look-ups, a household of ten, extreme pension cohorts); any exception is reported with the rule that raised.",
        "note": "One day per interval between change days represents the interval (C07); parameter paths are exercised dynamically rather than enumerated statically; quick tier covers a seeded 40 of the ~130 days plus fixed ones.",
    },
}

NOT_APPLICABLE = {}
