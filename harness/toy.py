"""Spec -> code replay of the compile pipeline on toy universes (MC_Dag configurations).

TLC (Toy_Eval.tla) predicts, per configuration and target, the symbolic value; the configuration
is materialised as real Python rules / data / aggregation specs and run through
compute_taxes_and_transfers; the observed numbers are compared with the predicted term evaluated
on the same data (the evaluation of a TLC-printed term is a format-level step)."""
from __future__ import annotations

import os
import math
import random
from pathlib import Path

import numpy as np
import pandas as pd

import tlaval
import tlc
from common import pool_map

HH = np.array([0, 0, 1], dtype=np.int64)
NAMES = ["a_m", "a_y", "a_w", "a_d", "a_m_hh", "a_y_hh", "b", "b_hh", "c", "c_hh", "e_y", "e_m", "e_m_hh"]


def data_values(name):
    k = NAMES.index(name) if name in NAMES else 20
    if name.endswith("_hh"):      # household-level data must be constant within the household (rows 0, 1 share one)
        return np.array([3.25 + 2 * k, 3.25 + 2 * k, 101.75 + 5 * k])
    return np.array([3.25 + 2 * k, 11.5 + 3 * k, 101.75 + 5 * k])


def coef(rule, arg, pos):
    return 1.5 + pos + 0.25 * (NAMES.index(arg) if arg in NAMES else 0)


def const(rule):
    return 0.6 + 0.1 * NAMES.index(rule)


def make_rule(name, args, rounded):
    from _gettsim.shared import policy_info

    args = sorted(args)
    body = " + ".join([repr(const(name))] + [f"{coef(name, a, i)!r} * {a}" for i, a in enumerate(args)])
    # a rule without column arguments would return a scalar (parameter-only rule); the toy rule takes
    # p_id and ignores it so that it yields a column like every aggregated rule of the real rule base
    sig = ", ".join(args) if args else "p_id"
    src = f"def {name}({sig}):\n    return {body}\n"
    ns = {}
    exec(src, ns)  # noqa: S102 - toy rule generated from the specification's configuration
    f = ns[name]
    if rounded:
        f = policy_info(params_key_for_rounding="toy")(f)
    return f


def eval_term(t, df):
    k = t[0]
    if k == "data":
        return df[t[1]].to_numpy().astype(float)
    if k == "scale":
        return eval_term(t[2], df) * (t[1][0] / t[1][1])
    if k == "round":
        return np.floor(eval_term(t[1], df))
    if k == "rule":
        name = t[1]
        vals = {a: eval_term(x, df) for a, x in t[3]}
        out = np.full(len(df), const(name))
        for i, a in enumerate(sorted(vals)):
            out = out + coef(name, a, i) * vals[a]
        return out
    if k in ("grp_sum", "grp_max"):
        v = eval_term(t[2], df)
        g = df[t[1]].to_numpy()
        out = np.empty(len(v))
        for gid in np.unique(g):
            m = g == gid
            out[m] = v[m].sum() if k == "grp_sum" else v[m].max()
        return out
    raise ValueError(f"unknown term {k}")


def has_kind(t, kinds):
    if not isinstance(t, (list, tuple)) or not t:
        return False
    if t[0] in kinds:
        return True
    return any(has_kind(x, kinds) for x in t[1:] if isinstance(x, (list, tuple)))


def replay_one(job):
    case, pred = job
    from _gettsim.interface import compute_taxes_and_transfers
    import warnings

    res = []
    if not pred["valid"]:
        return res
    df = pd.DataFrame({"p_id": np.arange(3, dtype=np.int64), "hh_id": HH})
    for d in case["data"]:
        df[d] = data_values(d)
    funcs = {r["name"]: make_rule(r["name"], r["args"], r["round"] != "") for r in case["fn"]}
    params = {"toy": {"rounding": {r["name"]: {"base": 1, "direction": "down"} for r in case["fn"] if r["round"]}}}
    ug = {u["name"]: {"aggr": u["aggr"], "source_col": u["src"]} for u in case["ugrp"]}
    for t, term in pred["terms"].items():
        if t in case["data"]:
            continue      # a data column cannot be requested as a target (raises: loud, DESIGN F8)
        exp_bad = term[0] == "bad"
        try:
            with warnings.catch_warnings():
                warnings.simplefilter("ignore")
                out = compute_taxes_and_transfers(data=df, params=params, functions=funcs, aggregate_by_group_specs=ug, targets=[t], rounding=True)
            obs = out[t].to_numpy().astype(float)
            err = ""
        except Exception as e:  # noqa: BLE001
            obs, err = None, type(e).__name__ + ": " + str(e)[:150].replace("\n", " ")
        if exp_bad:
            if not err:
                res.append({"id": case["id"], "target": t, "what": "spec: not computable, code: computed", "term": term})
            continue
        if err:
            res.append({"id": case["id"], "target": t, "what": f"spec: computable, code raised {err}", "term": term})
            continue
        exp = eval_term(term, df)
        if not np.allclose(obs, exp, rtol=1e-12, atol=1e-12):
            res.append({"id": case["id"], "target": t, "what": "value differs from the specified term", "term": term, "observed": obs.tolist(), "expected": exp.tolist()})
    return res


def run_toy(chk, quick, rnd, pid, kinds=None):
    """Returns list of mismatch records (each with `term`); counts go into chk."""
    cfg = tlc.SPEC_DIR / f"_gen_toy_{pid}_{os.getpid()}.cfg"
    cfg.write_text(f"CONSTANTS\n  Small = {'TRUE' if quick else 'FALSE'}\n  WithPid = FALSE\nSPECIFICATION Spec\nCHECK_DEADLOCK FALSE\n")
    dump = chk.work / "toy"
    try:
        res = tlc.run("MC_Dag", cfg.name, workdir=chk.work, workers=16, dump=dump, timeout=1800)
    finally:
        cfg.unlink(missing_ok=True)
    states = tlaval.read_dump(str(dump) + ".dump")
    Path(str(dump) + ".dump").unlink()
    cases = []
    for i, s in enumerate(states):
        c = s["cfg"]
        fn = c["fn"] if isinstance(c["fn"], dict) else {}
        ug = c["ugrp"] if isinstance(c["ugrp"], dict) else {}
        cases.append({
            "id": i,
            "fn": [{"name": n, "args": sorted(v["args"]), "round": v["round"]} for n, v in sorted(fn.items())],
            "data": sorted(c["data"]),
            "ugrp": [{"name": n, "aggr": "max" if v["aggr"] == "any" else v["aggr"], "src": v["src"]} for n, v in sorted(ug.items())],
        })
    cases = rnd.sample(cases, min(len(cases), 500 if quick else 6000))
    # TLC predicts
    nchunk = 16
    jobs = []
    for k in range(nchunk):
        ch = cases[k::nchunk]
        if ch:
            tf = chk.work / f"toy_{k}.json"
            tlc.write_json(tf, ch)
            jobs.append((str(tf), str(chk.work / f"toy_{k}.out.json"), str(chk.work)))
    outs = pool_map(_predict, jobs)
    preds = {}
    states_n = 0
    for o, d in outs:
        states_n += d
        for p in o:
            preds[p["id"]] = p
    work = [(c, preds[c["id"]]) for c in cases]
    results = pool_map(replay_one, work, chunksize=8)
    nvalid = sum(1 for c in cases if preds[c["id"]]["valid"])
    ntargets = sum(sum(1 for t in preds[c["id"]]["terms"].values() if t[0] != "bad") for c in cases if preds[c["id"]]["valid"])
    chk.count(ntargets)
    chk.cov["traces_validated_against_impl"] += nvalid
    chk.notes["toy_universe"] = {"configurations": len(cases), "well_formed": nvalid, "computable_targets_replayed": ntargets, "tlc_states": states_n}
    mism = [m for r in results for m in r]
    if kinds:
        mism = [m for m in mism if has_kind(m["term"], kinds) or m["term"][0] == "bad"]
    return mism


def _predict(job):
    tf, of, work = job
    r = tlc.run("Toy_Eval", "Toy_Eval.cfg", workdir=work, env={"TRACE_FILE": tf, "OUT_FILE": of}, timeout=3000)
    if r.violated:
        raise tlc.TLCFailure(f"Toy_Eval: {r.violated}\n{r.out[-1500:]}")
    return tlc.read_json(of), r.distinct
