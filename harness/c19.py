"""C19 — social-insurance contributions follow the statutory shape in the wage.

A  MC_Contrib: the regime machine on abstract parameters (regimes in order, boundaries
   inclusive as the statute says, the statutory shape satisfies the step properties).
C  for every change date of the contribution parameters >= 2015 (thorough: since 2003), east /
   west x with / without children x age, the real employee / employer contributions, the
   transition-zone totals and the two flags along a wage sweep (grid + every statutory boundary
   +- one cent) form one behaviour each; TLC (Trace_Contrib) checks every step.
"""
from __future__ import annotations

import datetime
import json
import random

import numpy as np

import gs
import tlc
from common import Check, pool_map
from enc import dec

LEVEL = "model_checking"
AN = ["ges_rentenv_beitr_arbeitnehmer_m", "arbeitsl_v_beitr_arbeitnehmer_m", "ges_krankenv_beitr_arbeitnehmer_m", "ges_pflegev_beitr_arbeitnehmer_m"]
AG = ["ges_rentenv_beitr_arbeitgeber_m", "arbeitsl_v_beitr_arbeitgeber_m", "ges_krankenv_beitr_arbeitgeber_m", "ges_pflegev_beitr_arbeitgeber_m"]
TOT = ["_ges_rentenv_beitr_midijob_sum_arbeitnehmer_arbeitgeber_m", "_arbeitsl_v_beitr_midijob_sum_arbeitnehmer_arbeitgeber_m", "_ges_krankenv_beitr_midijob_sum_arbeitnehmer_arbeitgeber_m", "_ges_pflegev_beitr_midijob_sum_arbeitnehmer_arbeitgeber_m"]


def sweep_job(job):
    date, ost, kinder, alter, seed = job
    rnd = random.Random(seed)
    params, functions = gs.env(date)
    sv = params["sozialv_beitr"]
    # statutory boundaries of the date (parameters of the environment; their resolution by date is C07)
    probe = gs.build_population([{"p_id": 0, "hh_id": 0, "alter": alter, "wohnort_ost": ost}], date)
    b = gs.compute(probe, date, targets=["minijob_grenze", "_ges_krankenv_beitr_bemess_grenze_m", "_ges_rentenv_beitr_bemess_grenze_m", "ges_krankenv_beitr_arbeitnehmer_m"])
    mini = float(b["minijob_grenze"].iloc[0])
    capkv = float(b["_ges_krankenv_beitr_bemess_grenze_m"].iloc[0])
    caprv = float(b["_ges_rentenv_beitr_bemess_grenze_m"].iloc[0])
    midi = float(sv["geringfügige_eink_grenzen_m"]["midijob"])
    ws = set(np.arange(0.0, max(caprv, capkv) * 1.25, 25.0 if len(str(seed)) else 25.0).tolist())
    for t in (mini, midi, capkv, caprv):
        ws |= {t, t - 0.01, t + 0.01, t - 1.0, t + 1.0, round(t / 2, 2)}
    ws |= {rnd.uniform(0, caprv * 1.2) for _ in range(20)}
    ws = sorted(w for w in ws if w >= 0)
    P = [{"p_id": i, "hh_id": i, "alter": alter, "bruttolohn_m": float(w), "wohnort_ost": ost, "ges_pflegev_hat_kinder": kinder, "arbeitsstunden_w": 38.0} for i, w in enumerate(ws)]
    df = gs.build_population(P, date)
    have = [c for c in AN + AG + TOT + ["geringfügig_beschäftigt", "in_gleitzone"] if c in functions or True]
    meta = {"date": date, "ost": ost, "kinder": kinder, "alter": alter, "mini": mini, "midi": midi, "capkv": capkv, "caprv": caprv, "points": len(ws)}
    try:
        res = gs.compute(df, date, targets=AN + AG + TOT + ["geringfügig_beschäftigt", "in_gleitzone"], rounding=True)
    except Exception as e:  # noqa: BLE001
        meta["error"] = f"{type(e).__name__}: {str(e)[:200]}"
        return None, meta
    pts = []
    for i, w in enumerate(ws):
        pts.append({
            "w": dec(float(w)),
            "an": [dec(float(res[c].iloc[i])) for c in AN],
            "ag": [dec(float(res[c].iloc[i])) for c in AG],
            "tot": [dec(float(res[c].iloc[i])) for c in TOT],
            "gering": bool(res["geringfügig_beschäftigt"].iloc[i]),
            "gleit": bool(res["in_gleitzone"].iloc[i]),
        })
    ev = {"branch": f"{date}|ost={ost}|kinder={kinder}|alter={alter}", "mini": dec(mini), "midi": dec(midi), "cap": [dec(caprv), dec(caprv), dec(capkv), dec(capkv)], "pts": pts}
    return ev, meta


def change_dates(lo):
    import c07

    raw = c07.export_raw()
    days = set()
    for g in raw:
        if g["name"] == "sozialv_beitr":
            for p in g["params"]:
                days |= {e["day"] for e in p["entries"]}
    days = sorted(d for d in days if d >= datetime.date.fromisoformat(lo).toordinal())
    return [datetime.date.fromordinal(d).isoformat() for d in days]


def _judge_one(job):
    tf, of, work = job
    r = tlc.run("Trace_Contrib", "Trace_Contrib.cfg", workdir=work, env={"TRACE_FILE": tf, "OUT_FILE": of}, timeout=3000)
    if r.violated:
        raise tlc.TLCFailure(f"Trace_Contrib: {r.violated}\n{r.out[-1500:]}")
    return tlc.read_json(of), r.distinct


def run(tier):
    chk = Check("C19", tier, LEVEL)
    rnd = random.Random(chk.seed * 65537 + 19)
    quick = tier == "quick"
    r0 = tlc.run("MC_Contrib", "MC_Contrib.cfg", workdir=chk.work, workers=2, timeout=300)
    if r0.violated:
        chk.violation(f"C19|spec-theorem|{','.join(r0.violated)}", "the statutory shape violates a step property in the abstract model", {"out": r0.out[-2000:]})
    else:
        chk.add_mc(r0, "MC_Contrib")
    dates = change_dates("2015-01-01" if quick else "2003-04-01")
    if quick:
        dates = sorted(set(dates[-4:]) | set(rnd.sample(dates[:-4], min(4, len(dates) - 4))) | {"2015-01-01"})
    jobs = []
    for d in dates:
        branches = [(False, True, 40), (True, False, 40), (False, False, 22), (True, True, 30)]
        if quick:
            branches = rnd.sample(branches, 2)
        for ost, kinder, alter in branches:
            jobs.append((d, ost, kinder, alter, rnd.randrange(1 << 30)))
    outs = pool_map(sweep_job, jobs)
    tjobs, metas = [], []
    for k, (ev, meta) in enumerate(outs):
        if ev is None:
            chk.violation(f"C19|raised|date={meta['date']}|{meta['error'][:50]}", "the wage sweep raised", meta)
            continue
        tf = chk.work / f"contrib_{k}.json"
        tlc.write_json(tf, [ev])
        tjobs.append((str(tf), str(chk.work / f"contrib_{k}.out.json"), str(chk.work)))
        metas.append(meta)
    res = pool_map(_judge_one, tjobs)
    seen = set()
    npts = 0
    for meta, (o, distinct) in zip(metas, res):
        chk.notes["trace_tlc_states"] = chk.notes.get("trace_tlc_states", 0) + distinct
        npts += meta["points"]
        chk.distinct((meta["date"], meta["ost"], meta["kinder"], meta["alter"]))
        for b in o["bad"]:
            sig = f"C19|{b['c']}|from={meta['date']}"
            if sig in seen:
                continue
            seen.add(sig)
            chk.violation(sig, f"{b['c']} along the wage sweep at {meta['date']} (ost={meta['ost']}, kinder={meta['kinder']}, alter={meta['alter']})", meta)
    chk.count(npts)
    chk.cov["traces_validated_against_impl"] += len(metas)
    chk.notes.update({"dates": dates, "sweeps": len(metas), "points": npts})
    if metas:
        chk.sample(metas[0])
        chk.sample(metas[-1])
    chk.cov["rule"] = (
        "per change date of the contribution parameters and branch (east/west, children, age): one vectorised run over ~600 single-person households with wages on a 25-EUR grid up to 1.25 x the pension ceiling plus every statutory boundary "
        "(mini-job threshold, upper zone boundary, both assessment ceilings) -1, -0.01, 0, +0.01, +1 and 20 seeded wages; distinct_nontrivial = distinct (date, branch) sweeps"
    )
    chk.assumptions += ["boundaries and ceilings are read from the environment of the date (their resolution is C07)", "NoJump uses slope bound 1 (a contribution never rises faster than the wage)", "regular employees: not self-employed, not privately insured, no pension"]
    return chk.finish()


def replay(path):
    case = json.load(open(path))["case"]
    ev, meta = sweep_job((case["date"], case["ost"], case["kinder"], case["alter"], 1))
    chk = Check("C19", "quick", LEVEL)
    tf = chk.work / "r.json"
    tlc.write_json(tf, [ev])
    o, _ = _judge_one((str(tf), str(chk.work / "r.out.json"), str(chk.work)))
    print(sorted({b["c"] for b in o["bad"]}))
    return 1 if o["bad"] else 0
