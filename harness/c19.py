"""C19 — social-insurance contributions follow the statutory shape in the wage.

A  MC_Contrib: the regime machine on abstract parameters (regimes in order, boundaries
   inclusive as the statute says, the statutory shape satisfies the step properties).
C  for every change date of the contribution parameters >= 2015 (thorough: since 2003), east /
   west x with / without children x age, the real employee / employer contributions, the
   transition-zone totals and the two flags along a wage sweep (grid + every statutory boundary
   +- one cent) form one behaviour each; TLC (Trace_Contrib) checks every step.
"""
from __future__ import annotations

import datetime
import json
import random

import numpy as np

import gs
import tlc
from common import Check, pool_map
from enc import dec

LEVEL = "exploration"
AN = ["ges_rentenv_beitr_arbeitnehmer_m", "arbeitsl_v_beitr_arbeitnehmer_m", "ges_krankenv_beitr_arbeitnehmer_m", "ges_pflegev_beitr_arbeitnehmer_m"]
AG = ["ges_rentenv_beitr_arbeitgeber_m", "arbeitsl_v_beitr_arbeitgeber_m", "ges_krankenv_beitr_arbeitgeber_m", "ges_pflegev_beitr_arbeitgeber_m"]
TOT = ["_ges_rentenv_beitr_midijob_sum_arbeitnehmer_arbeitgeber_m", "_arbeitsl_v_beitr_midijob_sum_arbeitnehmer_arbeitgeber_m", "_ges_krankenv_beitr_midijob_sum_arbeitnehmer_arbeitgeber_m", "_ges_pflegev_beitr_midijob_sum_arbeitnehmer_arbeitgeber_m"]


def sweep_job(job):
    """One vectorised run per (date, east/west): for every branch (number of children under 25 in
    0..5, age 22 / 40) a full wage sweep; returns one event per branch."""
    date, ost, seed, step = job
    rnd = random.Random(seed)
    params, functions = gs.env(date)
    sv = params["sozialv_beitr"]
    probe = gs.build_population([{"p_id": 0, "hh_id": 0, "alter": 40, "wohnort_ost": ost}], date)
    b = gs.compute(probe, date, targets=["minijob_grenze", "_ges_krankenv_beitr_bemess_grenze_m", "_ges_rentenv_beitr_bemess_grenze_m", "ges_krankenv_beitr_arbeitnehmer_m"])
    mini = float(b["minijob_grenze"].iloc[0])
    capkv = float(b["_ges_krankenv_beitr_bemess_grenze_m"].iloc[0])
    caprv = float(b["_ges_rentenv_beitr_bemess_grenze_m"].iloc[0])
    midi = float(sv["geringfügige_eink_grenzen_m"]["midijob"])
    ws = set(np.arange(0.0, max(caprv, capkv) * 1.25, step).tolist())
    for t in (mini, midi, capkv, caprv):
        ws |= {t, t - 0.01, t + 0.01, t - 1.0, t + 1.0, round(t / 2, 2)}
    ws |= {round(rnd.uniform(0, caprv * 1.2), 2) for _ in range(20)}
    ws = sorted(w for w in ws if w >= 0)
    branches = [(k, a) for k in (0, 1, 2, 3, 5) for a in (22, 40)]
    P = []
    pid = 0
    for (k, a) in branches:
        for w in ws:
            P.append({"p_id": pid, "hh_id": pid, "alter": a, "bruttolohn_m": float(w), "wohnort_ost": ost, "ges_pflegev_hat_kinder": k > 0, "arbeitsstunden_w": 38.0})
            pid += 1
    df = gs.build_population(P, date)
    kcol = np.repeat([k for k, a in branches], len(ws)).astype(np.int64)
    extra = {}
    if "ges_pflegev_anz_kinder_bis_24" in functions or True:
        df["ges_pflegev_anz_kinder_bis_24"] = kcol      # supplied: the number of children under 25 (normally a pointer aggregate)
    metas, events = [], []
    try:
        res = gs.compute(df, date, targets=AN + AG + TOT + ["geringfügig_beschäftigt", "in_gleitzone"], rounding=True)
    except Exception as e:  # noqa: BLE001
        return [], [{"date": date, "ost": ost, "error": f"{type(e).__name__}: {str(e)[:200]}"}]
    n = len(ws)
    for bi, (k, a) in enumerate(branches):
        sl = slice(bi * n, (bi + 1) * n)
        pts = []
        sub = res.iloc[sl]
        for i, w in enumerate(ws):
            pts.append({
                "w": dec(float(w)),
                "an": [dec(float(sub[c].iloc[i])) for c in AN],
                "ag": [dec(float(sub[c].iloc[i])) for c in AG],
                "tot": [dec(float(sub[c].iloc[i])) for c in TOT],
                "gering": bool(sub["geringfügig_beschäftigt"].iloc[i]),
                "gleit": bool(sub["in_gleitzone"].iloc[i]),
            })
        events.append({"branch": f"{date}|ost={ost}|kinder={k}|alter={a}", "mini": dec(mini), "midi": dec(midi), "cap": [dec(caprv), dec(caprv), dec(capkv), dec(capkv)], "pts": pts})
        metas.append({"date": date, "ost": ost, "kinder": k, "alter": a, "mini": mini, "midi": midi, "capkv": capkv, "caprv": caprv, "points": n})
    return events, metas


def change_dates(lo):
    import c07

    raw = c07.export_raw()
    days = set()
    for g in raw:
        if g["name"] == "sozialv_beitr":
            for p in g["params"]:
                days |= {e["day"] for e in p["entries"]}
    days = sorted(d for d in days if d >= datetime.date.fromisoformat(lo).toordinal())
    return [datetime.date.fromordinal(d).isoformat() for d in days]


def _judge_one(job):
    tf, of, work = job
    r = tlc.run("Trace_Contrib", "Trace_Contrib.cfg", workdir=work, env={"TRACE_FILE": tf, "OUT_FILE": of}, timeout=3000)
    if r.violated:
        raise tlc.TLCFailure(f"Trace_Contrib: {r.violated}\n{r.out[-1500:]}")
    return tlc.read_json(of), r.distinct


def run(tier):
    chk = Check("C19", tier, LEVEL)
    rnd = random.Random(chk.seed * 65537 + 19)
    quick = tier == "quick"
    r0 = tlc.run("MC_Contrib", "MC_Contrib.cfg", workdir=chk.work, workers=2, timeout=300)
    if r0.violated:
        chk.violation(f"C19|spec-theorem|{','.join(r0.violated)}", "the statutory shape violates a step property in the abstract model", {"out": r0.out[-2000:]})
    else:
        chk.add_mc(r0, "MC_Contrib")
    # every change date: entries of sozialv_beitr.yaml and the starts of dated rule versions of the tree under test
    dates = sorted(set(change_dates("2015-01-01" if quick else "2003-04-01")) | set(gs.change_dates("2015-01-01", "2025-12-31", skip_2017h1=False)))
    fine = set(dates)
    if quick:   # quick: all change dates >= 2015, a finer wage grid on the last four, four seeded ones, 2015 and 2017
        fine = set(dates[-4:]) | set(rnd.sample(dates[:-4], min(4, len(dates) - 4))) | {"2015-01-01", "2017-01-01"}
    jobs = [(d, ost, rnd.randrange(1 << 30), (50.0 if d in fine else 150.0) if quick else 20.0) for d in dates for ost in ((False, True) if not quick else (rnd.random() < 0.5,))]
    outs = pool_map(sweep_job, jobs)
    tjobs, metas = [], []
    k = 0
    for events, ms in outs:
        for ev, meta in zip(events, ms):
            tf = chk.work / f"contrib_{k}.json"
            tlc.write_json(tf, [ev])
            tjobs.append((str(tf), str(chk.work / f"contrib_{k}.out.json"), str(chk.work)))
            metas.append(meta)
            k += 1
        for m in ms:
            if "error" in m:
                if m["date"] < "2015-01-01":      # outside the quantifier of C19: recorded, not judged
                    chk.notes.setdefault("sweeps_before_2015_that_raised", []).append(f"{m['date']}: {m['error'][:80]}")
                else:
                    d = m["date"]
                    chk.violation(f"C19|raised|half={d[:4]}H{1 if d[5:7] <= '06' else 2}|date={d}|{m['error'][:50]}", "the wage sweep raised", m)
    res = pool_map(_judge_one, tjobs)
    seen = set()
    npts = 0
    for meta, (o, distinct) in zip(metas, res):
        chk.notes["trace_tlc_states"] = chk.notes.get("trace_tlc_states", 0) + distinct
        npts += meta["points"]
        chk.distinct((meta["date"], meta["ost"], meta["kinder"], meta["alter"]))
        for b in o["bad"]:
            sig = f"C19|{b['c']}|from={meta['date']}"
            if sig in seen:
                continue
            seen.add(sig)
            chk.violation(sig, f"{b['c']} along the wage sweep at {meta['date']} (ost={meta['ost']}, kinder={meta['kinder']}, alter={meta['alter']})", meta)
    chk.count(npts)
    chk.cov["traces_validated_against_impl"] += len(metas)
    chk.notes.update({"dates": dates, "sweeps": len(metas), "points": npts})
    if metas:
        chk.sample(metas[0])
        chk.sample(metas[-1])
    chk.cov["rule"] = (
        "per change date of the contribution parameters and east/west: one vectorised run with, for each branch (number of children under 25 in {0,1,2,3,5} supplied as data, age 22/40), single-person households with wages on a 50-EUR (thorough 20-EUR) grid up to 1.25 x the pension ceiling plus every statutory boundary "
        "(mini-job threshold, upper zone boundary, both assessment ceilings) -1, -0.01, 0, +0.01, +1 and 20 seeded wages; distinct_nontrivial = distinct (date, branch) sweeps"
    )
    chk.assumptions += ["boundaries and ceilings are read from the environment of the date (their resolution is C07)", "NoJump uses slope bound 1 (a contribution never rises faster than the wage)", "regular employees: not self-employed, not privately insured, no pension"]
    return chk.finish()


def replay(path):
    case = json.load(open(path))["case"]
    evs, metas = sweep_job((case["date"], case["ost"], 1, 50.0))
    ev = [e for e, m in zip(evs, metas) if m["kinder"] == case["kinder"] and m["alter"] == case["alter"]][0]
    chk = Check("C19", "quick", LEVEL)
    tf = chk.work / "r.json"
    tlc.write_json(tf, [ev])
    o, _ = _judge_one((str(tf), str(chk.work / "r.out.json"), str(chk.work)))
    print(sorted({b["c"] for b in o["bad"]}))
    return 1 if o["bad"] else 0
