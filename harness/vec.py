"""C09 helpers: AST export, argument generation, scalar vs array evaluation of real rules."""
from __future__ import annotations

import ast
import datetime
import inspect
import math
import random
import textwrap
from fractions import Fraction

import numpy as np

SKIP_FIELDS = ("ctx", "type_comment", "type_params", "kind", "returns", "decorator_list", "annotation")


def enc_ast(v):
    if isinstance(v, ast.AST):
        fields = {}
        for k, x in ast.iter_fields(v):
            if k in SKIP_FIELDS:
                continue
            fields[k] = enc_ast(x)
        return {"k": "node", "t": type(v).__name__, "f": fields}
    if isinstance(v, list):
        return {"k": "list", "items": [enc_ast(x) for x in v]}
    return {"k": "prim", "v": type(v).__name__ + ":" + repr(v)}


def func_ast(f):
    src = textwrap.dedent(inspect.getsource(f))
    return ast.parse(src).body[0]


def canon(v):
    """Canonical exact string of a scalar result (numeric value, not its Python type)."""
    if isinstance(v, (np.generic,)):
        v = v.item()
    if isinstance(v, (bool, int)):
        return str(Fraction(int(v)))
    if isinstance(v, float):
        if math.isnan(v):
            return "nan"
        if math.isinf(v):
            return "inf" if v > 0 else "-inf"
        return str(Fraction(v))
    if isinstance(v, (datetime.date, np.datetime64)):
        return "date:" + str(v)
    if isinstance(v, datetime.timedelta):
        return "td:" + str(v)
    return "obj:" + repr(v)[:60]


FLOATS = [0.0, 1.0, -1.0, 0.5, 100.0, 450.0, 450.01, 520.0, 538.0, 850.0, 1300.0, 2000.0, 2500.5, 4987.5, 7100.0, 30000.0, 62000.0, 250000.0, 1e6, 12.0, 35.0, 45.0, 3.3]
INTS = [0, 1, 2, 3, 5, 6, 7, 12, 14, 17, 18, 24, 25, 30, 45, 55, 63, 65, 67, 80, 1940, 1952, 1960, 1964, 1980, 1995, 2005, 2020, 2022]


def draw(name, ann, rnd):
    if ann is bool or ann == "bool":
        return rnd.random() < 0.5
    if ann is int or ann == "int":
        if "jahr" in name:
            return rnd.choice([1935, 1945, 1947, 1952, 1958, 1963, 1964, 1970, 1990, 2004, 2020])
        if "monat" in name:
            return rnd.choice([1, 2, 6, 12])
        if name == "geburtstag":
            return rnd.choice([1, 15, 28])
        if "alter" in name:
            return rnd.choice([0, 2, 5, 13, 17, 18, 24, 25, 30, 50, 63, 65, 67, 80])
        if "mietstufe" in name:
            return rnd.choice([1, 2, 3, 4, 5, 6])
        if "steuerklasse" in name:
            return rnd.choice([1, 2, 3, 4, 5, 6])
        if "anz" in name:
            return rnd.choice([0, 1, 2, 3, 5])
        if "behinderungsgrad" in name:
            return rnd.choice([0, 20, 30, 50, 80, 100])
        return rnd.choice(INTS)
    if ann is float or ann == "float":
        if "satz" in name or "anteil" in name or "faktor" in name:
            return rnd.choice([0.0, 0.01, 0.073, 0.15, 0.5, 1.0])
        return rnd.choice(FLOATS)
    if ann is np.datetime64 or "datetime64" in str(ann):
        return np.datetime64(f"{rnd.choice([1950, 1980, 2010, 2021, 2022])}-0{rnd.choice([1, 6])}-15")
    return rnd.choice(FLOATS)


def pick_date(f):
    info = getattr(f, "__info__", None)
    d = datetime.date(2023, 1, 1)
    if info and "start_date" in info:
        if not (info["start_date"] <= d <= info["end_date"]):
            d = max(info["start_date"], datetime.date(1990, 1, 1)) if info["end_date"] >= datetime.date(1990, 1, 1) else info["end_date"]
    return d.isoformat()
