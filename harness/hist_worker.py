"""Runs ONE history of API calls in this (fresh) interpreter and prints one JSON line of events."""
from __future__ import annotations

import hashlib
import json
import os
import sys

sys.path.insert(0, os.path.dirname(os.path.abspath(__file__)))
import numpy as np  # noqa: E402
import pandas as pd  # noqa: E402

import gs  # noqa: E402
import popgen  # noqa: E402


def h_bytes(h, b):
    h.update(len(b).to_bytes(8, "little"))
    h.update(b)


def digest_obj(o, h=None, depth=0):
    top = h is None
    h = h or hashlib.sha1()
    if isinstance(o, dict):
        h_bytes(h, b"D")
        for k in sorted(o, key=repr):
            h_bytes(h, repr(k).encode())
            digest_obj(o[k], h, depth + 1)
    elif isinstance(o, (list, tuple)):
        h_bytes(h, b"L")
        for x in o:
            digest_obj(x, h, depth + 1)
    elif isinstance(o, np.ndarray):
        h_bytes(h, str(o.dtype).encode())
        h_bytes(h, np.ascontiguousarray(o).tobytes())
    elif isinstance(o, pd.Series):
        h_bytes(h, str(o.dtype).encode())
        h_bytes(h, repr((list(o.index), o.index.name, o.name)).encode())
        h_bytes(h, repr(o.tolist()).encode())
    elif isinstance(o, pd.DataFrame):
        h_bytes(h, repr(list(o.columns)).encode())
        h_bytes(h, repr(list(o.index)).encode())
        for c in o.columns:
            digest_obj(o[c], h, depth + 1)
    elif callable(o):
        h_bytes(h, f"fn:{getattr(o, '__name__', '?')}:{id(o)}".encode())
    else:
        h_bytes(h, (type(o).__name__ + ":" + repr(o)).encode())
    return h.hexdigest() if top else None


def result_digest(res):
    h = hashlib.sha1()
    h_bytes(h, repr(list(res.columns)).encode())
    h_bytes(h, repr(list(res.index)).encode())
    for c in res.columns:
        a = res[c].to_numpy()
        h_bytes(h, a.dtype.kind.encode())
        h_bytes(h, np.ascontiguousarray(a).tobytes())
    return h.hexdigest()


def make_pop(name, date, as_dict):
    import random

    rnd = random.Random(hash(name) % 1000 if False else sum(map(ord, name)))
    if name == "p1":
        structs = [popgen.CANON["family_2"], popgen.CANON["single"]]
    else:
        structs = [popgen.CANON["single_parent_1"], popgen.CANON["family_6"], popgen.CANON["three_gen"]]   # incl. more children than any staggered table lists
    P = popgen.compose(structs, "2023-01-01", rnd)   # ages do not depend on the policy date: the caller holds ONE table
    # fixed facts on which the replayed calls must depend whatever the generator drew: adults below 60 earn regular wages,
    # the six children of the large family are minors with a Kindergeld claim
    wages = [2500.0, 1200.0, 4200.0, 800.0, 3100.0]
    k = 0
    for q in P:
        if 18 <= q["alter"] < 60 and not q["kind"]:
            q.update({"bruttolohn_m": wages[k % len(wages)], "bruttolohn_vorj_m": wages[k % len(wages)], "arbeitsstunden_w": 38.0, "rentner": False, "voll_erwerbsgemind": False, "teilw_erwerbsgemind": False, "jahr_renteneintr": q["geburtsjahr"] + 67})
            k += 1
    if name == "p2":
        kids = [q for q in P if q["p_id_elternteil_1"] == P[len(structs[0])]["p_id"]]
        for j, q in enumerate(kids):
            q.update({"alter": 1 + 2 * j, "geburtsjahr": 2023 - (1 + 2 * j), "kind": True, "bruttolohn_m": 0.0, "in_ausbildung": (1 + 2 * j) >= 6, "p_id_kindergeld_empf": P[len(structs[0])]["p_id"],
                      "rentner": False, "voll_erwerbsgemind": False, "teilw_erwerbsgemind": False, "m_pflichtbeitrag": 0.0, "arbeitssuchend": False, "eink_selbst_m": 0.0, "jahr_renteneintr": 2023 - (1 + 2 * j) + 67})
    df = gs.build_population(P, "2023-01-01")
    if not as_dict:
        # the caller's DataFrame holds two columns in a losslessly convertible other dtype (whole euros as integers, ids read
        # as floats): the conversion must not be written into the caller's table
        df = df.copy()
        df["vermögen_bedürft"] = df["vermögen_bedürft"].round().astype(np.int64)
        df["hh_id"] = df["hh_id"].astype(float)
    if as_dict:
        df = df.copy()
        df.index = pd.Index([101 + 3 * i for i in range(len(df))], name="person")     # the caller's Series carry their own labels
        d = {c: df[c].copy() for c in df.columns}
        d["alter"] = d["alter"].astype(float)          # needs (lossless) conversion
        d["kind"] = d["kind"].astype(np.int64)
        return d
    return df


def perturb_inplace(v):
    if isinstance(v, dict):
        for k in list(v.keys()):
            if k in ("rounding", "datum"):
                continue
            x = v[k]
            if isinstance(x, dict):
                perturb_inplace(x)
            elif isinstance(x, np.ndarray) and x.dtype.kind == "f":
                fin = np.isfinite(x)
                x[fin] = x[fin] * 1.5
            elif isinstance(x, float) and np.isfinite(x):
                v[k] = x * 1.5
            elif isinstance(x, int) and not isinstance(x, bool):
                v[k] = x + 7


def main():
    job = json.loads(sys.argv[1])
    conc = job["concrete"]
    import warnings

    warnings.filterwarnings("ignore")
    from _gettsim.interface import compute_taxes_and_transfers
    from _gettsim.policy_environment import set_up_policy_environment
    from _gettsim.vectorization import make_vectorizable

    envs = []
    pops = {}
    events = []
    for pos, st in enumerate(job["steps"], start=1):
        k = st["k"]
        if k == "setup":
            p, f = set_up_policy_environment(conc["dates"][st["d"]])
            envs.append({"params": p, "functions": f, "date": conc["dates"][st["d"]]})
        elif k == "reform":
            g = conc["groups"][st["g"]]
            for g_ in ([g] if isinstance(g, str) else g):     # the abstract group may stand for several real parameter groups
                perturb_inplace(envs[st["e"] - 1]["params"][g_])
        elif k == "vectorize":
            fnl = conc["rules"][st["f"]]
            fs = envs[st["e"] - 1]["functions"]
            for fn in ([fnl] if isinstance(fnl, str) else fnl):
                if fn in fs:
                    try:
                        make_vectorizable(fs[fn], "numpy")
                    except Exception:  # noqa: BLE001
                        pass
        elif k == "compute":
            e = envs[st["e"] - 1]
            key = st["key"]
            pname = key["pop"]
            if pname not in pops:
                pops[pname] = make_pop(pname, e["date"], as_dict=(pname == "p2"))
            data = pops[pname]
            targets = list(conc["targets"][key["targets"]]) + (["verif_probe"] if key["targets"] == "T2" else [])
            held = {"data": data, "params": e["params"], "functions": e["functions"], "targets": targets}
            before = digest_obj(held)
            exc, dig = "", ""
            # target set T2 is computed with the documented list form [environment functions, user function]
            farg = e["functions"]
            if key["targets"] == "T2":
                # a user rule built by a factory: every call gets a NEW function object with the same module and qualified name
                # but another factor (a function of the call key, so the reference uses the same one)
                def make_probe(factor):
                    def verif_probe(alter: int) -> float:
                        return alter * factor

                    return verif_probe

                farg = [e["functions"], make_probe({"p1": 2.0, "p2": 3.0}[pname] + (0.5 if key["rounding"] else 0.0) + (0.25 if e["date"] >= "2010" else 0.0))]
            try:
                # target set T2 also carries a user aggregation specification that redefines a BUILT-IN aggregate for this call only
                extra = {"aggregate_by_group_specs": {"anz_kinder_hh": {"source_col": "erwachsen", "aggr": "sum"}}} if key["targets"] == "T2" else {}
                res = compute_taxes_and_transfers(data=data, params=e["params"], functions=farg, targets=targets, rounding=bool(key["rounding"]), **extra)
                dig = result_digest(res)
            except Exception as ex:  # noqa: BLE001
                exc = type(ex).__name__
            after = digest_obj(held)
            events.append({"pos": pos, "key": st["keystr"], "digest": dig, "exc": exc, "before": before, "after": after})
    print("EVENTS " + json.dumps(events))


if __name__ == "__main__":
    main()
