"""Helpers for Trace_Arith events and its TLC judge."""
from __future__ import annotations

import enc
import tlc
from common import pool_map


class ArithTrace:
    def __init__(self):
        self.pool = enc.Pool()
        self.events = []
        self.meta = []

    def cells(self, arr):
        return self.pool.column(arr)

    def add(self, ev, meta):
        self.events.append(ev)
        self.meta.append(meta)


def _judge_one(job):
    tf, of, work = job
    r = tlc.run("Trace_Arith", "Trace_Arith.cfg", workdir=work, env={"TRACE_FILE": tf, "OUT_FILE": of}, timeout=3000)
    if r.violated:
        raise tlc.TLCFailure(f"Trace_Arith: {r.violated}\n{r.out[-1500:]}")
    return tlc.read_json(of), r.distinct


def judge(traces, work, tag):
    """traces: list of ArithTrace; each judged by its own TLC run (parallel). Returns list of (meta, clause)."""
    jobs = []
    for k, t in enumerate(traces):
        if not t.events:
            jobs.append(None)
            continue
        tf = f"{work}/arith_{tag}_{k}.json"
        tlc.write_json(tf, {"pool": t.pool.items, "events": t.events})
        jobs.append((tf, f"{work}/arith_{tag}_{k}.out.json", str(work)))
    outs = pool_map(_judge_one, [j for j in jobs if j])
    it = iter(outs)
    res = []
    states = 0
    for t, j in zip(traces, jobs):
        if not j:
            continue
        o, distinct = next(it)
        states += distinct
        for b in o["bad"]:
            res.append((t.meta[b["e"] - 1], b["c"]))
    return res, states
