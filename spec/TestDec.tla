---- MODULE TestDec ----
EXTENDS Dec, TLC, Json, IOUtils
T == JsonDeserialize(IOEnv.TRACE_FILE)
Bad == {i \in 1..Len(T) :
   LET t == T[i] IN
   ~( Add(t.a, t.b) = t.sum /\ Sub(t.a, t.b) = t.diff /\ Mul(t.a, t.b) = t.prod /\ Cmp(t.a, t.b) = t.cmp
      /\ Close(t.a, t.b, Tol1e9) = t.close ) }
ASSUME PrintT(<<"n", Len(T), "bad", Bad>>)
ASSUME Bad = {}
VARIABLE x
Init == x = 0
Next == UNCHANGED x
====
