--------------------------- MODULE Trace_Timeline ---------------------------
(* Code -> spec for C07: environments recorded from the implementation on chosen days are  *)
(* validated against Timeline.tla.  Events (TRACE_FILE):                                   *)
(*   [k = "env",   day, group, params = <<[name, flat]>>, rounding = <<[name, flat]>>]     *)
(*   [k = "funcs", day, active = <<<<column name, implementation name>>>>]                 *)
(* Clauses: param (value in force differs), rounding, funcs (wrong implementation chosen), *)
(*          overlap (two implementations of one name on that day),                         *)
(*          interior (SPEC theorem: an environment differs from the one at the last change *)
(*          day although no change day lies in between).                                   *)
EXTENDS Timeline
Raw == JsonDeserialize(IOEnv.RAW_FILE)
Impls == Raw.impls
Trace == JsonDeserialize(IOEnv.TRACE_FILE)
OutFile == IOEnv.OUT_FILE
VARIABLES l, bad, stats
vars == <<l, bad, stats>>

ObsVal(o) == IF Len(o.flat) = 1 /\ o.flat[1][1] = <<>> THEN [kind |-> "scalar", v |-> o.flat[1][2]]
             ELSE [kind |-> "dict", val |-> FlatSet(o.flat, <<>>)]
Observed(e) == {<<e.params[i].name, ObsVal(e.params[i])>> : i \in 1..Len(e.params)}
ObservedRounding(e) == {<<e.rounding[i].name, FlatSet(e.rounding[i].flat, <<>>)>> : i \in 1..Len(e.rounding)}
Names(S) == {x[1] : x \in S}
SymDiffNames(A, B) == Names(A \ B) \cup Names(B \ A)

\* change days of the environment: entries, entries seen through the one-year look-back, 1 January
ED == EntryDays(Raw)
Boundaries == ED \cup {d + 365 : d \in ED} \cup {d + 366 : d \in ED}
LastBoundary(day) == LET S == {b \in Boundaries : b <= day} \cup {JanFirst(day)} IN Max(S)

EnvVerdict(e) ==
  LET exp == Expected(Raw, e.group, e.day)
      obs == Observed(e)
      expR == ExpectedRounding(Raw, e.group, e.day)
      obsR == ObservedRounding(e)
      lb == LastBoundary(e.day)
  IN (IF exp # obs THEN {[c |-> "param", names |-> SymDiffNames(exp, obs)]} ELSE {})
     \cup (IF expR # obsR THEN {[c |-> "rounding", names |-> SymDiffNames(expR, obsR)]} ELSE {})
     \cup (IF lb # e.day /\ (Expected(Raw, e.group, lb) # exp \/ ExpectedRounding(Raw, e.group, lb) # expR)
           THEN {[c |-> "interior", names |-> SymDiffNames(Expected(Raw, e.group, lb), exp)]} ELSE {})

FuncsVerdict(e) ==
  LET exp == Active(Impls, e.day)
      obs == {<<e.active[i][1], e.active[i][2]>> : i \in 1..Len(e.active)}
  IN (IF exp # obs THEN {[c |-> "funcs", names |-> SymDiffNames(exp, obs)]} ELSE {})
     \cup (IF ~UniquePerName(Impls, e.day) THEN {[c |-> "overlap", names |-> {}]} ELSE {})

\* registration histories of one column name: [k = "register", attempts = <<[s, e, ok]>>]
RegOverlaps(a, b) == a.s <= b.e /\ b.s <= a.e
RegisterVerdict(e) ==
  LET h == e.attempts
      exp(k) == \A j \in 1..(k - 1) : h[j].ok => ~RegOverlaps(h[j], h[k]) IN
  IF \E k \in 1..Len(h) : h[k].ok # exp(k) THEN {[c |-> "register", names |-> {}]} ELSE {}

\* parameter reads of active rules: [k = "reads", day, items = <<[rule, group, key]>>] -- every top-level parameter
\* that a rule of the day's dependency graph subscripts with a constant key must exist in the environment of the day
SetupDerived == {"einführungsfaktor_vorsorgeaufw_alter_ab_2005", "datum", "rounding"}
ReadsVerdict(e) ==
  LET missing == {i \in 1..Len(e.items) :
                    /\ e.items[i].key \notin SetupDerived
                    /\ e.items[i].group \in GroupNames(Raw)
                    /\ e.items[i].key \notin Names(Expected(Raw, e.items[i].group, e.day))} IN
  IF missing = {} THEN {} ELSE {[c |-> "read-of-absent-parameter", names |-> {e.items[i].rule \o ":" \o e.items[i].group \o "." \o e.items[i].key : i \in missing}]}

Init == l = 1 /\ bad = {} /\ stats = [env |-> 0, funcs |-> 0, interior |-> 0]
Step ==
  /\ l <= Len(Trace)
  /\ LET e == Trace[l]
         v == IF e.k = "env" THEN EnvVerdict(e) ELSE IF e.k = "register" THEN RegisterVerdict(e) ELSE IF e.k = "reads" THEN ReadsVerdict(e) ELSE FuncsVerdict(e) IN
     /\ bad' = bad \cup {[e |-> l, c |-> x.c, names |-> x.names] : x \in v}
     /\ stats' = [env |-> stats.env + (IF e.k = "env" THEN 1 ELSE 0),
                  funcs |-> stats.funcs + (IF e.k = "funcs" THEN 1 ELSE 0),
                  interior |-> stats.interior + (IF e.k = "env" /\ LastBoundary(e.day) # e.day THEN 1 ELSE 0)]
  /\ l' = l + 1
Spec == Init /\ [][Step]_vars
Done == (l = Len(Trace) + 1) =>
          JsonSerialize(OutFile, [bad |-> bad, n |-> Len(Trace), stats |-> stats, nooverlap |-> NoOverlap(Impls),
                                  boundaries |-> Cardinality(Boundaries), entrydays |-> Cardinality(ED)])
Consumed == TLCGet("stats").diameter - 1 = Len(Trace)
=============================================================================
