------------------------------- MODULE Setup -------------------------------
(* Values the environment derives at set-up time from other parameters                       *)
(* (the _parse_ steps of policy_environment).  The two factors that are a schedule evaluated at the year   *)
(* are bound in C18 (Eval); here: the Kinderzuschlag maximum per child.  The law states it     *)
(* directly except for 2021 and 2022, where it is derived from the subsistence levels of a     *)
(* child: (Regelsatz + Unterkunft + Heizung) / 12 - Kindergeld for the first child.  Stated    *)
(* without division: 12 * (maximum + Kindergeld) = Regelsatz + Unterkunft + Heizung.           *)
EXTENDS Dec, Naturals
KizMaxDerivedYear(y) == 2021 <= y /\ y < 2023
KizMaxOK(e, tol) ==
  IF KizMaxDerivedYear(e.year)
  THEN e.obsHas /\ Close(Mul(FromInt(12), Add(e.obs, e.kg1)), Add(Add(e.regel, e.kdu), e.heiz), tol)
  ELSE e.obsHas = e.rawHas /\ (e.rawHas => EQ(e.obs, e.raw))
=============================================================================
