CONSTANTS
  Small = TRUE
  WithPid = FALSE
SPECIFICATION Spec
INVARIANT AltUnitEquivalence
CHECK_DEADLOCK FALSE
