------------------------------- MODULE VecSem -------------------------------
(* Two semantics for the restricted style on the uniform AST values of Vec.tla:             *)
(*   SEval  Python's scalar semantics (one row at a time)                                    *)
(*   AEval  the semantics of the rewritten code on arrays: numpy.where / logical_* /         *)
(*          maximum / minimum elementwise with broadcasting; numpy.sum/any/all/max/min of    *)
(*          ONE argument as a FULL reduction (what these numpy functions do); Python          *)
(*          constructs that were left untranslated (quirk Q1) raise on arrays.                *)
(* Numbers are small integers, truth values are 0/1 (Python: True == 1).  An array value is  *)
(* [k |-> "s", v |-> n] (0-dim) or [k |-> "v", v |-> <<n1, .., nL>>]; "callerr" is a loud    *)
(* failure when the array form is called.                                                    *)
EXTENDS Vec, Integers

ConstVal(p) == CASE p.v = "int:0" -> 0 [] p.v = "int:1" -> 1 [] p.v = "int:2" -> 2 [] p.v = "int:3" -> 3
                 [] p.v = "bool:True" -> 1 [] p.v = "bool:False" -> 0 [] OTHER -> 0
NameOf(n) == AttrOfId(IdOf(n))                  \* Name node -> identifier string
Truth(n) == IF n # 0 THEN 1 ELSE 0
MaxI(x, y) == IF x >= y THEN x ELSE y
MinI(x, y) == IF x <= y THEN x ELSE y
RECURSIVE FoldS(_, _, _, _)
FoldS(Op(_, _), acc, s, i) == IF i > Len(s) THEN acc ELSE FoldS(Op, Op(acc, s[i]), s, i + 1)

\* ------------------------------------------------------------------ scalar semantics
RECURSIVE SEval(_, _)
SArgs(e, env) == [i \in 1..Len(e.f.args.items) |-> SEval(e.f.args.items[i], env)]
SElts(l, env) == [i \in 1..Len(l.f.elts.items) |-> SEval(l.f.elts.items[i], env)]
SEval(e, env) ==
  CASE e.t = "Name" -> env[NameOf(e)]
    [] e.t = "Constant" -> ConstVal(e.f.value)
    [] e.t = "BinOp" -> LET x == SEval(e.f.left, env) y == SEval(e.f.right, env) IN
                        IF e.f.op.t = "Add" THEN x + y ELSE IF e.f.op.t = "Sub" THEN x - y ELSE x * y
    [] e.t = "UnaryOp" -> IF e.f.op.t = "Not" THEN 1 - Truth(SEval(e.f.operand, env)) ELSE 0 - SEval(e.f.operand, env)
    [] e.t = "Compare" -> LET x == SEval(e.f.left, env) y == SEval(e.f.comparators.items[1], env) o == e.f.ops.items[1].t IN
                          IF (o = "Gt" /\ x > y) \/ (o = "GtE" /\ x >= y) \/ (o = "Lt" /\ x < y) \/ (o = "Eq" /\ x = y) \/ (o = "LtE" /\ x <= y) \/ (o = "NotEq" /\ x # y) THEN 1 ELSE 0
    [] e.t = "BoolOp" -> LET vs == [i \in 1..Len(e.f.values.items) |-> SEval(e.f.values.items[i], env)] IN
                         IF e.f.op.t = "And" THEN FoldS(LAMBDA x, y : IF x # 0 THEN y ELSE x, vs[1], vs, 2)
                         ELSE FoldS(LAMBDA x, y : IF x # 0 THEN x ELSE y, vs[1], vs, 2)
    [] e.t = "IfExp" -> IF SEval(e.f.test, env) # 0 THEN SEval(e.f.body, env) ELSE SEval(e.f.orelse, env)
    [] e.t = "Call" ->
         LET fn == NameOf(e.f.func)
             raw == e.f.args.items
             xs == IF Len(raw) = 1 /\ raw[1].t = "List" THEN SElts(raw[1], env) ELSE SArgs(e, env) IN
         CASE fn = "max" -> FoldS(MaxI, xs[1], xs, 2)
           [] fn = "min" -> FoldS(MinI, xs[1], xs, 2)
           [] fn = "sum" -> FoldS(LAMBDA x, y : x + y, 0, xs, 1)
           [] fn = "any" -> IF \E i \in 1..Len(xs) : xs[i] # 0 THEN 1 ELSE 0
           [] fn = "all" -> IF \A i \in 1..Len(xs) : xs[i] # 0 THEN 1 ELSE 0
    [] OTHER -> 0

\* statements: returns [env, ret] ; ret = "none" record when no return happened yet
NoRet == [done |-> FALSE, v |-> 0]
RECURSIVE SExec(_, _, _)
SExecList(stmts, env, ret) == SExec(stmts, env, ret)
SExec(stmts, env, ret) ==
  IF ret.done \/ stmts = <<>> THEN [env |-> env, ret |-> ret]
  ELSE LET s == Head(stmts) rest == Tail(stmts) IN
       CASE s.t = "Assign" -> SExec(rest, [env EXCEPT ![NameOf(s.f.targets.items[1])] = SEval(s.f.value, env)], ret)
         [] s.t = "AugAssign" -> SExec(rest, [env EXCEPT ![NameOf(s.f.target)] = (IF s.f.op.t = "Sub" THEN @ - SEval(s.f.value, env) ELSE IF s.f.op.t = "Mult" THEN @ * SEval(s.f.value, env) ELSE @ + SEval(s.f.value, env))], ret)
         [] s.t = "Return" -> [env |-> env, ret |-> [done |-> TRUE, v |-> SEval(s.f.value, env)]]
         [] s.t = "If" -> LET r == IF SEval(s.f.test, env) # 0 THEN SExec(s.f.body.items, env, ret) ELSE SExec(s.f.orelse.items, env, ret) IN
                          SExec(rest, r.env, r.ret)
         [] OTHER -> [env |-> env, ret |-> ret]
SRun(body, env) == SExec(body, env, NoRet).ret.v

\* ------------------------------------------------------------------ array semantics
L == 2                                            \* array length
Sc(n) == [k |-> "s", v |-> n]
Vc(s) == [k |-> "v", v |-> s]
CallErr == [k |-> "e", v |-> 0]
IsErr(x) == x.k = "e"
At(x, i) == IF x.k = "s" THEN x.v ELSE x.v[i]
Lift2(Op(_, _), x, y) == IF IsErr(x) \/ IsErr(y) THEN CallErr
                         ELSE IF x.k = "s" /\ y.k = "s" THEN Sc(Op(x.v, y.v))
                         ELSE Vc([i \in 1..L |-> Op(At(x, i), At(y, i))])
Lift1(Op(_), x) == IF IsErr(x) THEN CallErr ELSE IF x.k = "s" THEN Sc(Op(x.v)) ELSE Vc([i \in 1..L |-> Op(x.v[i])])
Where(c, x, y) == IF IsErr(c) \/ IsErr(x) \/ IsErr(y) THEN CallErr
                  ELSE IF c.k = "s" /\ x.k = "s" /\ y.k = "s" THEN Sc(IF c.v # 0 THEN x.v ELSE y.v)
                  ELSE Vc([i \in 1..L |-> IF At(c, i) # 0 THEN At(x, i) ELSE At(y, i)])
\* Python's truth value of an array with more than one element is ambiguous -> ValueError
PyTruthOK(x) == ~IsErr(x) /\ x.k = "s"
\* all elements of a list of array values, flattened (numpy.asarray of a homogeneous list)
Homogeneous(xs) == (\A i \in 1..Len(xs) : xs[i].k = "s") \/ (\A i \in 1..Len(xs) : xs[i].k = "v")
AllElems(xs) == IF \A i \in 1..Len(xs) : xs[i].k = "s" THEN [i \in 1..Len(xs) |-> xs[i].v]
                ELSE [j \in 1..(Len(xs) * L) |-> xs[((j - 1) \div L) + 1].v[((j - 1) % L) + 1]]
Reduce(fn, xs) ==    \* numpy.fn(list) : full reduction
  IF \E i \in 1..Len(xs) : IsErr(xs[i]) THEN CallErr
  ELSE IF ~Homogeneous(xs) THEN CallErr          \* ragged nested sequence -> ValueError
  ELSE LET es == AllElems(xs) IN
       Sc(CASE fn = "max" -> FoldS(MaxI, es[1], es, 2)
            [] fn = "min" -> FoldS(MinI, es[1], es, 2)
            [] fn = "sum" -> FoldS(LAMBDA x, y : x + y, 0, es, 1)
            [] fn = "any" -> IF \E i \in 1..Len(es) : es[i] # 0 THEN 1 ELSE 0
            [] fn = "all" -> IF \A i \in 1..Len(es) : es[i] # 0 THEN 1 ELSE 0)

IsModCall(e) == e.t = "Call" /\ e.f.func.k = "node" /\ e.f.func.t = "Attribute"
RECURSIVE AEval(_, _)
AEval(e, env) ==
  CASE e.t = "Name" -> env[NameOf(e)]
    [] e.t = "Constant" -> Sc(ConstVal(e.f.value))
    [] e.t = "BinOp" -> LET x == AEval(e.f.left, env) y == AEval(e.f.right, env) IN
                        IF e.f.op.t = "Add" THEN Lift2(LAMBDA p, q : p + q, x, y)
                        ELSE IF e.f.op.t = "Sub" THEN Lift2(LAMBDA p, q : p - q, x, y) ELSE Lift2(LAMBDA p, q : p * q, x, y)
    [] e.t = "Compare" -> LET x == AEval(e.f.left, env) y == AEval(e.f.comparators.items[1], env) o == e.f.ops.items[1].t IN
                          Lift2(LAMBDA p, q : IF (o = "Gt" /\ p > q) \/ (o = "GtE" /\ p >= q) \/ (o = "Lt" /\ p < q) \/ (o = "Eq" /\ p = q) \/ (o = "LtE" /\ p <= q) \/ (o = "NotEq" /\ p # q) THEN 1 ELSE 0, x, y)
    \* --- untranslated Python constructs (only reachable below a UnaryOp, quirk Q1)
    [] e.t = "UnaryOp" -> LET x == AEval(e.f.operand, env) IN
                          IF e.f.op.t = "Not" THEN (IF PyTruthOK(x) THEN Sc(1 - Truth(x.v)) ELSE CallErr)
                          ELSE Lift1(LAMBDA p : 0 - p, x)
    [] e.t = "BoolOp" -> LET vs == [i \in 1..Len(e.f.values.items) |-> AEval(e.f.values.items[i], env)] IN
                         IF \A i \in 1..Len(vs) : PyTruthOK(vs[i])
                         THEN Sc(IF e.f.op.t = "And" THEN FoldS(LAMBDA x, y : IF x # 0 THEN y ELSE x, vs[1].v, [i \in 1..Len(vs) |-> vs[i].v], 2)
                                 ELSE FoldS(LAMBDA x, y : IF x # 0 THEN x ELSE y, vs[1].v, [i \in 1..Len(vs) |-> vs[i].v], 2))
                         ELSE IF PyTruthOK(vs[1]) /\ ((e.f.op.t = "And" /\ vs[1].v = 0) \/ (e.f.op.t = "Or" /\ vs[1].v # 0)) THEN vs[1]   \* short circuit
                         ELSE IF PyTruthOK(vs[1]) /\ Len(vs) = 2 THEN vs[2]                                            \* `x and arr` returns arr
                         ELSE CallErr
    [] e.t = "IfExp" -> LET c == AEval(e.f.test, env) IN
                        IF PyTruthOK(c) THEN (IF c.v # 0 THEN AEval(e.f.body, env) ELSE AEval(e.f.orelse, env)) ELSE CallErr
    [] e.t = "Call" ->
         IF IsModCall(e) THEN
            LET fn == AttrOfId(e.f.func.f.attr)
                raw == e.f.args.items
                xs == [i \in 1..Len(raw) |-> IF raw[i].t = "List" THEN Sc(0) ELSE AEval(raw[i], env)] IN
            CASE fn = "where" -> Where(xs[1], xs[2], xs[3])
              [] fn = "logical_and" -> Lift2(LAMBDA p, q : IF p # 0 /\ q # 0 THEN 1 ELSE 0, xs[1], xs[2])
              [] fn = "logical_or" -> Lift2(LAMBDA p, q : IF p # 0 \/ q # 0 THEN 1 ELSE 0, xs[1], xs[2])
              [] fn = "logical_not" -> Lift1(LAMBDA p : 1 - Truth(p), xs[1])
              [] fn = "maximum" -> Lift2(MaxI, xs[1], xs[2])
              [] fn = "minimum" -> Lift2(MinI, xs[1], xs[2])
              [] OTHER ->          \* numpy.sum / any / all / max / min of ONE argument
                   IF raw[1].t = "List"
                   THEN Reduce(fn, [i \in 1..Len(raw[1].f.elts.items) |-> AEval(raw[1].f.elts.items[i], env)])
                   ELSE Reduce(fn, <<xs[1]>>)
         ELSE      \* an untranslated Python builtin on arrays
            LET fn == NameOf(e.f.func)
                raw == e.f.args.items
                xs == IF Len(raw) = 1 /\ raw[1].t = "List"
                      THEN [i \in 1..Len(raw[1].f.elts.items) |-> AEval(raw[1].f.elts.items[i], env)]
                      ELSE [i \in 1..Len(raw) |-> AEval(raw[i], env)] IN
            IF \E i \in 1..Len(xs) : IsErr(xs[i]) THEN CallErr
            ELSE IF fn = "sum" THEN FoldS(LAMBDA x, y : Lift2(LAMBDA p, q : p + q, x, y), Sc(0), xs, 1)
            ELSE IF \A i \in 1..Len(xs) : xs[i].k = "s"
                 THEN Sc(CASE fn = "max" -> FoldS(MaxI, xs[1].v, [i \in 1..Len(xs) |-> xs[i].v], 2)
                           [] fn = "min" -> FoldS(MinI, xs[1].v, [i \in 1..Len(xs) |-> xs[i].v], 2)
                           [] fn = "any" -> IF \E i \in 1..Len(xs) : xs[i].v # 0 THEN 1 ELSE 0
                           [] fn = "all" -> IF \A i \in 1..Len(xs) : xs[i].v # 0 THEN 1 ELSE 0)
            ELSE CallErr        \* comparison / truth value of arrays inside the builtin
    [] OTHER -> CallErr

RECURSIVE AExec(_, _, _)
AExec(stmts, env, ret) ==
  IF ret.done \/ stmts = <<>> THEN [env |-> env, ret |-> ret]
  ELSE LET s == Head(stmts) rest == Tail(stmts) IN
       CASE s.t = "Assign" -> AExec(rest, [env EXCEPT ![NameOf(s.f.targets.items[1])] = AEval(s.f.value, env)], ret)
         [] s.t = "AugAssign" -> AExec(rest, [env EXCEPT ![NameOf(s.f.target)] = Lift2(LAMBDA p, q : IF s.f.op.t = "Sub" THEN p - q ELSE IF s.f.op.t = "Mult" THEN p * q ELSE p + q, @, AEval(s.f.value, env))], ret)
         [] s.t = "Return" -> [env |-> env, ret |-> [done |-> TRUE, v |-> AEval(s.f.value, env)]]
         [] OTHER -> [env |-> env, ret |-> [done |-> TRUE, v |-> CallErr]]
ARun(body, env) == AExec(body, env, [done |-> FALSE, v |-> CallErr]).ret.v
\* the array result as seen per row (0-dim results are broadcast)
Rows(x) == IF IsErr(x) THEN <<>> ELSE [i \in 1..L |-> At(x, i)]
=============================================================================
