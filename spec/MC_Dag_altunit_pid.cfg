CONSTANTS
  Small = TRUE
  WithPid = TRUE
SPECIFICATION Spec
INVARIANT AltUnitEquivalence
CHECK_DEADLOCK FALSE
