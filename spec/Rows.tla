-------------------------------- MODULE Rows --------------------------------
(* A column computed by a scalar rule (C03):                                                *)
(*    Column(f, rows) == [i \in DOMAIN rows |-> f[rows[i]]]        DType(f) == Declared(f)   *)
(* i.e. every cell is the rule applied to that row alone, and the storage type is the        *)
(* declared result type whatever the data.  MC_Rows contrasts this with a row-wise evaluator *)
(* that infers the storage type from the FIRST row (numpy.vectorize without otypes) and      *)
(* shows which result sequences that evaluator corrupts; the trace specification below       *)
(* validates the real evaluator.                                                             *)
EXTENDS Naturals, Sequences, FiniteSets
\* result kinds ordered by how much they can hold: b(ool) < i(nt) < f(loat)
Rank(k) == CASE k = "b" -> 0 [] k = "i" -> 1 [] k = "f" -> 2 [] OTHER -> 3
Holds(storage, k) == Rank(k) <= Rank(storage)
\* an evaluator that takes the storage type from the first row stores row i faithfully iff ...
FirstRowFaithful(kinds) == \A i \in 1..Len(kinds) : Holds(kinds[1], kinds[i])
\* the specified evaluator: storage = declared; faithful iff every result is of (or below) the declared kind
DeclaredFaithful(declared, kinds) == \A i \in 1..Len(kinds) : Holds(declared, kinds[i])
=============================================================================
