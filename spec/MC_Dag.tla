------------------------------- MODULE MC_Dag -------------------------------
(* Model check of the specified compile pipeline over a small universe of column names.    *)
(* A state is one configuration (rules with their arguments, data columns, a user group     *)
(* aggregation spec); configurations are built by AddRule / AddData / SetAgg so that TLC     *)
(* enumerates all of them.  In every well-formed configuration TLC checks, on symbolic      *)
(* values (Dag.tla):                                                                        *)
(*   TargetIndependence (C04)  the value of t does not depend on which other target is      *)
(*                             requested, and an extra target never makes t uncomputable    *)
(*   OverrideEquivalence (C05) supplying the computed value of any node n as data leaves    *)
(*                             every target unchanged                                       *)
(*   ReformLocality (C06)      replacing a rule changes only terms that mention it          *)
(*   RoundedExactlyOnce (C10)  the rounding wrapper sits on every rule with a rounding key   *)
(*                             and nowhere else (derived nodes are never re-rounded)         *)
(*   UnitsByFactor (C13)       all available time units of a flow denote one yearly value    *)
(*   SpecPrecedence (C11)      user spec > automatic sum; a spec'd name is never auto-summed *)
EXTENDS Dag, TLC
CONSTANTS Small, WithPid
VARIABLE cfg
Depth == 7

RuleMenuAll == { [name |-> "a_m", args |-> {"b"}, round |-> ""], [name |-> "a_m", args |-> {"b"}, round |-> "r"],
                 [name |-> "a_y", args |-> {"a_m"}, round |-> ""],
                 [name |-> "b", args |-> {}, round |-> ""], [name |-> "b_hh", args |-> {"b"}, round |-> ""],
                 [name |-> "c", args |-> {"a_m_hh"}, round |-> ""], [name |-> "c", args |-> {"a_y_hh", "b_hh"}, round |-> ""],
                 [name |-> "c", args |-> {"a_w"}, round |-> ""], [name |-> "e_y", args |-> {"a_y", "b"}, round |-> "r"] }
RuleMenu == IF Small THEN {r \in RuleMenuAll : r.name # "e_y" /\ ~(r.name = "c" /\ r.args = {"a_w"})} ELSE RuleMenuAll
DataMenu == IF Small THEN {"b", "a_y", "a_m", "b_hh"} ELSE {"b", "a_y", "a_m", "b_hh", "a_w"}
AggMenu == { Empty, [n \in {"b_hh"} |-> [aggr |-> "any", src |-> "b"]], [n \in {"a_m_hh"} |-> [aggr |-> "sum", src |-> "a_m"]] }
TargetPool == IF Small THEN {"a_m", "a_y", "a_w", "a_m_hh", "a_y_hh", "b_hh", "c"}
              ELSE {"a_m", "a_y", "a_w", "a_m_hh", "a_y_hh", "b_hh", "c", "e_y", "e_m", "e_m_hh"}

\* a built-in p_id aggregation (sum of the flow a_m over a pointer column), as in the real rule base
PidSpec == [n \in {"k_m"} |-> [aggr |-> "sum", src |-> "a_m", by |-> "ptr"]]
Init == cfg = [fn |-> Empty, data |-> {}, ugrp |-> Empty, bgrp |-> Empty, bpid |-> IF WithPid THEN PidSpec ELSE Empty, upid |-> Empty]
AddRule == \E r \in RuleMenu : r.name \notin DOMAIN cfg.fn /\
              cfg' = [cfg EXCEPT !.fn = Over(cfg.fn, [n \in {r.name} |-> [args |-> r.args, round |-> r.round]])]
AddData == \E d \in DataMenu : d \notin cfg.data /\ cfg' = [cfg EXCEPT !.data = @ \cup {d}]
SetAgg  == \E a \in AggMenu : cfg.ugrp = Empty /\ a # Empty /\ cfg' = [cfg EXCEPT !.ugrp = a]
Next == AddRule \/ AddData \/ SetAgg
Spec == Init /\ [][Next]_cfg

\* ---- well-formedness the theorems need (checked on the real rule base by C13/C04 drivers)
\* W1: a flow has at most one explicit definition (rule or data column) across time units
\* W2: explicit aggregation specs on time-suffixed names are sums
ValidConfig(c) ==
  /\ \A d \in c.data : \A r \in DOMAIN c.fn : ~SameFlow(d, r)
  /\ \A r1 \in DOMAIN c.fn : \A r2 \in DOMAIN c.fn : ~SameFlow(r1, r2)
  /\ \A d1 \in c.data : \A d2 \in c.data : ~SameFlow(d1, d2)
  /\ \A n \in DOMAIN c.ugrp : ParseTime(n) # <<>> => c.ugrp[n].aggr = "sum"

BaseData(c) == [x \in c.data \cup {"hh_id", "p_id"} |-> Atom(x)]
Ver0(c) == [n \in DOMAIN c.fn |-> 0]
Live(c, T, dv) == LET tab == Table([c EXCEPT !.data = DOMAIN dv \ {"hh_id", "p_id"}], T) IN [n \in DOMAIN tab \ DOMAIN dv |-> tab[n]]
Eval(c, T, dv, ver, t) == Val(Live(c, T, dv), dv, ver, t, Depth)
Good(c, T, t) == ~HasBad(Eval(c, T, BaseData(c), Ver0(c), t))

TargetIndependence ==
  ValidConfig(cfg) =>
    \A t \in TargetPool : Good(cfg, {t}, t) =>
       \A x \in TargetPool : /\ Good(cfg, {t, x}, t)
                             /\ Eval(cfg, {t}, BaseData(cfg), Ver0(cfg), t) = Eval(cfg, {t, x}, BaseData(cfg), Ver0(cfg), t)

OverrideEquivalence ==
  ValidConfig(cfg) =>
    \A t \in TargetPool : Good(cfg, {t}, t) =>
       LET tab == Table(cfg, {t})
           v == Eval(cfg, {t}, BaseData(cfg), Ver0(cfg), t) IN
       \A n \in (DOMAIN tab \ cfg.data) \ {t} :
          LET vn == Eval(cfg, {t}, BaseData(cfg), Ver0(cfg), n) IN
          ~HasBad(vn) =>
             LET dv2 == [x \in DOMAIN BaseData(cfg) \cup {n} |-> IF x = n THEN vn ELSE BaseData(cfg)[x]] IN
             Eval(cfg, {t}, dv2, Ver0(cfg), t) = v

ReformLocality ==
  ValidConfig(cfg) =>
    \A f \in DOMAIN cfg.fn :
       LET ver1 == [n \in DOMAIN cfg.fn |-> IF n = f THEN 1 ELSE 0] IN
       \A t \in TargetPool : Good(cfg, {t}, t) =>
          LET v0 == Eval(cfg, {t}, BaseData(cfg), Ver0(cfg), t)
              v1 == Eval(cfg, {t}, BaseData(cfg), ver1, t) IN
          (f \notin RulesIn(v0)) => v1 = v0

RoundedExactlyOnce ==
  ValidConfig(cfg) =>
    LET rounded == {n \in DOMAIN cfg.fn : cfg.fn[n].round # ""} IN
    \A t \in TargetPool : Good(cfg, {t}, t) =>
       LET tab == Table(cfg, {t}) IN
       /\ RoundOK(Eval(cfg, {t}, BaseData(cfg), Ver0(cfg), t), rounded \ cfg.data)
       /\ \A n \in DOMAIN tab : tab[n].kind # "rule" => tab[n].round = ""

UnitsByFactor ==
  ValidConfig(cfg) =>
    \A t1 \in TargetPool : \A t2 \in TargetPool :
       (SameFlow(t1, t2) /\ Good(cfg, {t1, t2}, t1) /\ Good(cfg, {t1, t2}, t2)) =>
          Scale(Fac(ParseTime(t1)[2]), Eval(cfg, {t1, t2}, BaseData(cfg), Ver0(cfg), t1))
            = Scale(Fac(ParseTime(t2)[2]), Eval(cfg, {t1, t2}, BaseData(cfg), Ver0(cfg), t2))

SpecPrecedence ==
  \A t \in TargetPool :
     LET p == Parts(cfg, {t}, FALSE) IN
     /\ \A n \in DOMAIN cfg.ugrp : n \notin DOMAIN cfg.fn => (n \in DOMAIN p.grp /\ p.grp[n].kind = "grp_" \o cfg.ugrp[n].aggr)
     /\ \A n \in p.auto : n \notin DOMAIN cfg.ugrp => p.grp[n].kind = "grp_sum"
     /\ LET tab == Table(cfg, {t}) IN                                  \* derived time nodes never shadow a rule
        \A n \in DOMAIN tab : tab[n].kind = "time" => n \notin DOMAIN cfg.fn

\* C13 "supplying an input in another time unit gives the same results": replacing a data column by the same flow in
\* another unit (values tied through the yearly atom, see Dag!Atom) leaves every computable target computable and equal.
\* With p_id aggregations this is VIOLATED by the pipeline as specified (= as implemented): the aggregation k_m is
\* only created when its source a_m is a rule or a data column, and derived time-unit nodes are created afterwards,
\* so a_y supplied instead of a_m loses k_m.  This is the design-level root cause of the known finding of C13.
Swap(c, d, d2) == [c EXCEPT !.data = (c.data \ {d}) \cup {d2}]
AltUnitEquivalence ==
  ValidConfig(cfg) =>
    \A d \in cfg.data : \A d2 \in DataMenu \cup {"a_d"} :
       (SameFlow(d, d2) /\ d2 \notin cfg.data /\ ValidConfig(Swap(cfg, d, d2))) =>
          \A t \in (TargetPool \cup {"k_m"}) \ {d, d2} :
             Good(cfg, {t}, t) =>
                /\ Good(Swap(cfg, d, d2), {t}, t)
                /\ Eval(cfg, {t}, BaseData(cfg), Ver0(cfg), t) = Eval(Swap(cfg, d, d2), {t}, BaseData(Swap(cfg, d, d2)), Ver0(cfg), t)

\* vacuity guard: this is expected to be VIOLATED (a witness configuration exists)
NoWitness == ~( /\ ValidConfig(cfg)
                /\ Cardinality({t \in TargetPool : Good(cfg, {t}, t)}) >= 3
                /\ \E n \in DOMAIN cfg.fn : cfg.fn[n].round # "" /\ n \notin cfg.data
                /\ \E t \in TargetPool : LET tab == Table(cfg, {t}) IN
                      (\E n \in DOMAIN tab : tab[n].kind = "time") /\ (\E n \in DOMAIN tab : tab[n].kind = "grp_sum") )

\* acyclicity of what the derivation adds: a derived time node never closes a cycle with its source
NoDerivedCycle ==
  ValidConfig(cfg) =>
    \A t \in TargetPool : LET v == Eval(cfg, {t}, BaseData(cfg), Ver0(cfg), t) IN
       (\A n \in DOMAIN cfg.fn : \A a \in cfg.fn[n].args : ~SameFlow(a, n) \/ a \in cfg.data \/ TRUE) => v[1] # "cycle"
=============================================================================
