------------------------------- MODULE MC_Round -------------------------------
(* Theorems about the rounding specification on a rational grid: for every base, direction, *)
(* offset and unrounded value there is a grid point accepted by RoundOK, for `up` and `down` *)
(* it is unique, it is within one step of the value, and rounding an on-grid value returns   *)
(* it unchanged (idempotence).  Values are quarters of the base so that on-grid points,      *)
(* half-way points and points in between all occur.                                          *)
EXTENDS Round, TLC, FiniteSets
CONSTANTS Bases, Quarters, Dirs
VARIABLE c
Offs == {Zero, Frac(1380, 1), FromInt(18)}          \* 0, 0.138, 18
Init == c \in [b : Bases, q : Quarters, d : Dirs, o : Offs]
Next == UNCHANGED c
BaseOf(b) == IF b = 1 THEN One ELSE IF b = 2 THEN Frac(100, 1) ELSE FromInt(b)     \* 1, 0.01, b
XOf(cc) == Mul(Mul(FromInt(cc.q - 20), Frac(2500, 1)), BaseOf(cc.b))                \* (q - 20) / 4 * base
Ks == {FromInt(k - 8) : k \in 0..16}
Accepted(cc) == {k \in Ks : RoundOK(XOf(cc), Add(Mul(k, BaseOf(cc.b)), cc.o), BaseOf(cc.b), cc.d, cc.o, k)}
Exists == Accepted(c) # {}
UniqueUpDown == c.d \in {"up", "down"} => Cardinality(Accepted(c)) = 1
WithinStep == \A k \in Accepted(c) : WithinOneStep(XOf(c), Add(Mul(k, BaseOf(c.b)), c.o), BaseOf(c.b), c.o)
Idempotent == \A k \in Accepted(c) : LET g == Mul(k, BaseOf(c.b)) IN RoundOK(g, Add(g, c.o), BaseOf(c.b), c.d, c.o, k)
=============================================================================
