----------------------------- MODULE MC_Priority -----------------------------
(* Every household of up to MaxUnits needs units on the small grid (amounts 0..Max so that   *)
(* every break-even equality occurs); TLC checks the exclusivity theorems on the specified    *)
(* decision functions.  Each state is replayed on the real rules (harness/c17.py).            *)
EXTENDS Priority, TLC
CONSTANTS MaxUnits, Max
VARIABLES us, allr, nr
vars == <<us, allr, nr>>
Unit == [N : 0..Max, E : 0..Max, W : 0..Max, K : 0..Max, V : 0..Max]
Init == us = <<>> /\ allr \in BOOLEAN /\ nr \in {0, 1}
\* V is the ALG II amount before priority: positive exactly when need exceeds income (wealth test passed)
AddUnit == Len(us) < MaxUnits /\ \E u \in Unit : (u.V = (IF u.N > u.E THEN u.N - u.E ELSE 0)) /\ us' = Append(us, u) /\ UNCHANGED <<allr, nr>>
Spec == Init /\ [][AddUnit]_vars
Consistent == allr => nr = 1      \* all adults pensioners implies at least one pensioner (households with an adult)
InvExclusive == Consistent => NoAlg2WithWohngeldOrKiz(us, allr, nr)
InvKiz == KizOnlyIfNeedCovered(us, nr)
InvGrunds == Consistent => \A g \in {0, 1} : (g > 0 => allr) => GrundsExcludes(us, allr, nr, g)
=============================================================================
