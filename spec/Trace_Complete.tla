---------------------------- MODULE Trace_Complete ----------------------------
(* Code -> spec for C08.  Case: the inputs of Derive (as in Trace_Derive) for one date plus      *)
(*   rspecs = <<[key, name]>> the rounding specifications present in the environment of the date. *)
(* Output per case: missing targets, undocumented leaves, nodes on a cycle, rounded rules          *)
(* without specification.                                                                          *)
EXTENDS Complete, Json, IOUtils
Cases == JsonDeserialize(IOEnv.TRACE_FILE)
OutFile == IOEnv.OUT_FILE
VARIABLES l, out
vars == <<l, out>>
Map(seq, f(_)) == [n \in {seq[i].name : i \in 1..Len(seq)} |-> LET i == CHOOSE i \in 1..Len(seq) : seq[i].name = n IN f(seq[i])]
Cfg(c) == [fn |-> Map(c.fns, LAMBDA x : [args |-> SeqToSet(x.args), round |-> x.round]),
           data |-> SeqToSet(c.data),
           bgrp |-> Map(c.bgrp, LAMBDA x : [aggr |-> x.aggr, src |-> x.src]),
           ugrp |-> Empty, bpid |-> Map(c.bpid, LAMBDA x : [aggr |-> x.aggr, src |-> x.src, by |-> x.by]), upid |-> Empty]
Judge(c) ==
  LET cfg == Cfg(c)
      T == SeqToSet(c.targets)
      full == TableFull(cfg, T)
      tab == [n \in DOMAIN full \ cfg.data |-> full[n]]
      specs == {<<c.rspecs[i].key, c.rspecs[i].name>> : i \in 1..Len(c.rspecs)} IN
  [case |-> c.id,
   missing_targets |-> MissingTargets(tab, T, cfg.data),
   undocumented_leaves |-> UndocumentedLeaves(tab, T, cfg.data),
   cycle |-> CycleRemainder(tab, T, cfg.data),
   rounding_without_spec |-> {n \in RoundedInDag(tab, T) : <<tab[n].round, n>> \notin specs},
   dag_nodes |-> Cardinality(Ancestors(tab, T) \cap DOMAIN tab),
   leaves |-> Cardinality(Leaves(tab, T))]
\* check_minimal_specification: the data columns a call does not need are exactly the data columns that are
\* neither a leaf of the pruned graph nor an overriding column inside it (interface._reduce_to_necessary_data);
\* overriding columns outside the graph are reported separately (_fail_if_columns_overriding_functions_are_not_in_dag)
Minimal(c) ==
  LET cfg == Cfg(c)
      T == SeqToSet(c.targets)
      full == TableFull(cfg, T)
      tab == [n \in DOMAIN full \ cfg.data |-> full[n]]
      anc == Ancestors(tab, T) IN
  [case |-> c.id,
   unused_data |-> cfg.data \ anc,
   unused_overriding |-> (cfg.data \cap DOMAIN full) \ anc]
Init == l = 1 /\ out = <<>>
Step == l <= Len(Cases) /\ out' = Append(out, IF "minimal" \in DOMAIN Cases[l] THEN Minimal(Cases[l]) ELSE Judge(Cases[l])) /\ l' = l + 1
Spec == Init /\ [][Step]_vars
Done == (l = Len(Cases) + 1) => JsonSerialize(OutFile, out)
Consumed == TLCGet("stats").diameter - 1 = Len(Cases)
=============================================================================
