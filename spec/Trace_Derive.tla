---------------------------- MODULE Trace_Derive ----------------------------
(* Code -> spec for the compile pipeline: the function table that the implementation        *)
(* builds for a call (load_and_check_functions) is validated against Derive.tla.            *)
(* Case: [fns = <<[name, args, round]>>, bgrp/ugrp = <<[name, aggr, src]>>,                   *)
(*        bpid/upid = <<[name, aggr, src, by]>>, data = <<names>>, targets = <<names>>,       *)
(*        observed = <<[name, args, ov, round]>>]                                            *)
(* Output per case: names the spec derives but the code does not (missing) and vice versa    *)
(* (extra), nodes whose arguments / overridden flag / rounding key differ, each with the     *)
(* kind the specification assigns (rule, time, grp_*, pid_*, grouping).                      *)
EXTENDS Derive, TLC, Json, IOUtils
Cases == JsonDeserialize(IOEnv.TRACE_FILE)
OutFile == IOEnv.OUT_FILE
VARIABLES l, out
vars == <<l, out>>

Map(seq, f(_)) == [n \in {seq[i].name : i \in 1..Len(seq)} |-> LET i == CHOOSE i \in 1..Len(seq) : seq[i].name = n IN f(seq[i])]
Cfg(c) == [fn |-> Map(c.fns, LAMBDA x : [args |-> SeqToSet(x.args), round |-> x.round]),
           data |-> SeqToSet(c.data),
           bgrp |-> Map(c.bgrp, LAMBDA x : [aggr |-> x.aggr, src |-> x.src]),
           ugrp |-> Map(c.ugrp, LAMBDA x : [aggr |-> x.aggr, src |-> x.src]),
           bpid |-> Map(c.bpid, LAMBDA x : [aggr |-> x.aggr, src |-> x.src, by |-> x.by]),
           upid |-> Map(c.upid, LAMBDA x : [aggr |-> x.aggr, src |-> x.src, by |-> x.by])]

Judge(c) ==
  LET cfg == Cfg(c)
      T == SeqToSet(c.targets)
      parts == Parts(cfg, T, TRUE)
      all == TableFull(cfg, T)
      obs == Map(c.observed, LAMBDA x : x)
      both == DOMAIN all \cap DOMAIN obs
      argbad == {n \in both :
                   IF all[n].kind = "time"
                   THEN ~(Len(obs[n].args) = 1 /\ SeqToSet(obs[n].args) \subseteq parts.time[n].alts)
                   ELSE SeqToSet(obs[n].args) # all[n].args}
      kindOf(n) == IF n \in DOMAIN all THEN all[n].kind ELSE "none"
  IN [case |-> c.id,
      nspec |-> Cardinality(DOMAIN all), nobs |-> Cardinality(DOMAIN obs),
      missing |-> {<<n, kindOf(n)>> : n \in DOMAIN all \ DOMAIN obs},
      extra |-> DOMAIN obs \ DOMAIN all,
      args |-> {<<n, kindOf(n)>> : n \in argbad},
      ov |-> {n \in both : obs[n].ov # (n \in cfg.data)},
      round |-> {<<n, kindOf(n)>> : n \in {n \in both : obs[n].round # all[n].round}},
      aggs |-> {<<n, all[n].kind, all[n].src, IF n \in DOMAIN parts.pid THEN CHOOSE a \in all[n].args \ {all[n].src, "p_id"} : TRUE ELSE GroupIdOf(n)>> :
                  n \in {m \in DOMAIN all \ cfg.data : all[m].kind \notin {"rule", "time", "grouping"}}},
      times |-> {<<n, all[n].src, all[n].conv[1], all[n].conv[2]>> : n \in {m \in DOMAIN all \ cfg.data : all[m].kind = "time"}},
      rounded |-> {<<n, all[n].round>> : n \in {m \in DOMAIN all \ cfg.data : all[m].round # ""}},
      kinds |-> [k \in {all[n].kind : n \in DOMAIN all} |-> Cardinality({n \in DOMAIN all : all[n].kind = k})]]

Init == l = 1 /\ out = <<>>
Step == l <= Len(Cases) /\ out' = Append(out, Judge(Cases[l])) /\ l' = l + 1
Spec == Init /\ [][Step]_vars
Done == (l = Len(Cases) + 1) => JsonSerialize(OutFile, out)
Consumed == TLCGet("stats").diameter - 1 = Len(Cases)
=============================================================================
