--------------------------- MODULE MC_Households ---------------------------
(* Incremental enumeration of populations (AddPerson) and the theorems about the          *)
(* reference partitions that TLC checks on every one of them.                             *)
EXTENDS Households, TLC
CONSTANTS MaxN,       \* number of persons
          Ages,       \* set of ages to choose from
          NHH,        \* number of household labels
          Family,     \* parents / age / eigenbedarf dimension on
          Marriage    \* spouse / gv / wv dimension on
VARIABLE pop
vars == <<pop>>

HHUsed == {pop[i].hh : i \in 1..Len(pop)}
MaxHH == IF HHUsed = {} THEN -1 ELSE CHOOSE h \in HHUsed : \A g \in HHUsed : g <= h

Init == pop = <<>>

AddPerson ==
  /\ Len(pop) < MaxN
  /\ LET n == Len(pop)
         k == n + 1 IN
     \E hh \in 0..(NHH - 1), age \in Ages, pa \in 0..n, sp \in 0..n, gv \in BOOLEAN,
        e1 \in 0..n, e2 \in 0..n, eb \in BOOLEAN, wv \in BOOLEAN :
       /\ hh <= MaxHH + 1
       /\ (pa # 0 => pop[pa].partner = 0 /\ pop[pa].hh = hh)
       /\ (sp # 0 => pop[sp].spouse = 0 /\ pop[sp].gv = gv)
       /\ (e2 # 0 => e1 # 0 /\ e1 < e2)
       /\ (pa # 0 => pa \notin {e1, e2})
       /\ (sp # 0 => sp \notin {e1, e2})
       /\ (eb => age < YoungAge /\ e1 # 0)
       /\ (~Family => e1 = 0 /\ e2 = 0 /\ ~eb)
       /\ (~Marriage => sp = 0 /\ ~gv /\ ~wv)
       /\ LET rec == [hh |-> hh, age |-> age, partner |-> pa, spouse |-> sp, gv |-> gv,
                      e1 |-> e1, e2 |-> e2, eb |-> eb, wv |-> wv] IN
          pop' = [i \in 1..k |->
                    IF i = k THEN rec
                    ELSE LET p1 == IF i = pa THEN [pop[i] EXCEPT !.partner = k] ELSE pop[i] IN
                         IF i = sp THEN [p1 EXCEPT !.spouse = k] ELSE p1]

Next == AddPerson
Spec == Init /\ [][Next]_vars

\* -------- theorems about the reference (checked in every reachable state)
WvOk(p) == \A i \in Ids(p) : \A j \in BgRef(p)[i] : p[j].wv = p[i].wv
InvNesting == Valid(pop) => Nesting(pop)
InvBgInWthh == (Valid(pop) /\ WvOk(pop)) => Refines(BgRef(pop), WthhRef(pop), Ids(pop))
\* a family unit has at most two generations linked by dependency: the parent of a
\* dependent child is never itself a dependent child
InvTwoGenerations ==
  \A c \in Ids(pop) : \A q \in Ids(pop) : Belongs(pop, c, q) => ~IsDependent(pop, q)
\* every AddPerson step keeps pointer well-formedness (generator sanity)
InvPointers == PointersOk(pop)
\* vacuity guards: witnesses must exist somewhere in the state space (checked via ALIAS/constraint counts)
IsUsable == Valid(pop) /\ WvOk(pop) /\ Len(pop) >= 1
=============================================================================
