----------------------------- MODULE MC_Timeline -----------------------------
(* Abstract timelines: two parameter files ("ga" with parameter p, "gb" with parameter q) *)
(* are built entry by entry on a 9-point calendar that contains a leap day; TLC checks the  *)
(* theorem of C07 ("between two change days the environment does not change") on the      *)
(* specified resolution for every timeline, and every timeline is replayed through the     *)
(* real YAML loader (harness/mc_timeline.py).                                              *)
EXTENDS Timeline
CONSTANTS MaxP, MaxQ
VARIABLES tl
vars == <<tl>>

Cal == <<737424, 737425, 737483, 737484, 737485, 737790, 737791, 737849, 737850>>
\* 2019-12-31, 2020-01-01, 2020-02-28, 2020-02-29, 2020-03-01, 2020-12-31, 2021-01-01, 2021-02-28, 2021-03-01
CalSet == {Cal[i] : i \in 1..Len(Cal)}
EntryMenu == {737425, 737484, 737485, 737791, 737849}

Leaf(k, v) == [key |-> k, flat |-> << << <<>>, v >> >>]
Nest(k, yv, zv) == [key |-> k, flat |-> << << <<"sy">>, yv >>, << <<"sz">>, zv >> >>]
NestY(k, yv) == [key |-> k, flat |-> << << <<"sy">>, yv >> >>]
FullMenu == { <<Leaf("sx", "i1")>>, <<Leaf("sx", "i2"), Nest("sn", "i1", "i1")>>, <<Nest("sn", "i2", "i2")>> }
DevMenu  == { <<Leaf("sx", "i3")>>, <<NestY("sn", "i4")>>, <<Leaf("sx", "i3"), NestY("sn", "i4")>>, <<>> }
ScalarMenu == {"i5", "sinf"}

R == [groups |-> << [name |-> "ga", params |-> <<[name |-> "p", entries |-> tl.p, add |-> tl.addp, trans |-> <<>>]>>, rounding |-> <<>>],
                    [name |-> "gb", params |-> <<[name |-> "q", entries |-> tl.q, add |-> "", trans |-> <<>>]>>, rounding |-> <<>>] >>]

LastDay(es) == IF es = <<>> THEN 0 ELSE es[Len(es)].day
Entry(day, dev, sc, vals) == [day |-> day, dev |-> dev, scalar |-> sc, vals |-> vals]
\* every leaf path an overlay touches must exist in the base (what the YAML files guarantee)
Fits(base, vals) == base.kind = "dict" /\
   \A i \in 1..Len(vals) : \A j \in 1..Len(vals[i].flat) :
      \E e \in base.val : e.p = <<vals[i].key>> \o vals[i].flat[j][1]

Init == \E a \in {"", "vorjahr", "jahresanfang"} : tl = [p |-> <<>>, q |-> <<>>, addp |-> a]

AddQ == /\ Len(tl.q) < MaxQ
        /\ \E d \in EntryMenu :
             /\ d > LastDay(tl.q)
             /\ \/ \E v \in FullMenu : tl' = [tl EXCEPT !.q = Append(@, Entry(d, "", "", v))]
                \/ \E v \in DevMenu : /\ Fits(Resolve(R, "gb", "q", d - 1), v)
                                      /\ tl' = [tl EXCEPT !.q = Append(@, Entry(d, "previous", "", v))]
AddP == /\ Len(tl.p) < MaxP
        /\ \E d \in EntryMenu :
             /\ d > LastDay(tl.p)
             /\ \/ \E v \in FullMenu : tl' = [tl EXCEPT !.p = Append(@, Entry(d, "", "", v))]
                \/ \E s \in ScalarMenu : tl' = [tl EXCEPT !.p = Append(@, Entry(d, "", s, <<>>))]
                \/ \E v \in DevMenu : /\ Fits(Resolve(R, "ga", "p", d - 1), v)
                                      /\ tl' = [tl EXCEPT !.p = Append(@, Entry(d, "previous", "", v))]
                \/ \E v \in DevMenu : /\ \A c \in CalSet : c >= d => Fits(Resolve(R, "gb", "q", c), v)
                                      /\ tl' = [tl EXCEPT !.p = Append(@, Entry(d, "gb.q", "", v))]
\* q must be complete before p refers to it (cross-file deviations resolve q at the requested day)
Next == (tl.p = <<>> /\ AddQ) \/ AddP
Spec == Init /\ [][Next]_vars

\* ---- theorem: the environment only changes on change days
ED == EntryDays(R)
Boundaries == ED \cup {d + 365 : d \in ED} \cup {d + 366 : d \in ED} \cup {737425, 737791}
NoChangeBetween(c1, c2) == \A b \in Boundaries : ~(c1 < b /\ b <= c2)
ConstantBetweenChangeDays ==
  \A i \in 1..(Len(Cal) - 1) :
     NoChangeBetween(Cal[i], Cal[i + 1]) =>
        /\ Expected(R, "ga", Cal[i]) = Expected(R, "ga", Cal[i + 1])
        /\ Expected(R, "gb", Cal[i]) = Expected(R, "gb", Cal[i + 1])
\* no resolution ever ends in the error value on timelines built under the guards
NoError == \A c \in CalSet : \A x \in Expected(R, "ga", c) \cup Expected(R, "gb", c) : x[2].kind # "error"
\* a parameter without any entry on or before the day (and no cross-file deviation) is absent
AbsentBeforeFirst == \A c \in CalSet : (tl.q = <<>> \/ c < tl.q[1].day) => Resolve(R, "gb", "q", c) = Absent
=============================================================================
