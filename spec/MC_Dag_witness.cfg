CONSTANT Small = TRUE
SPECIFICATION Spec
INVARIANT NoWitness
CHECK_DEADLOCK FALSE
