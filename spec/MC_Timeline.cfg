CONSTANTS
  MaxP = 2
  MaxQ = 2
SPECIFICATION Spec
INVARIANT ConstantBetweenChangeDays
INVARIANT NoError
INVARIANT AbsentBeforeFirst
CHECK_DEADLOCK FALSE
