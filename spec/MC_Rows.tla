------------------------------- MODULE MC_Rows -------------------------------
(* All sequences of result kinds up to MaxLen for a rule of a declared kind.  Theorems:      *)
(*  - the specified evaluator (storage = declared type) is faithful whenever the rule        *)
(*    returns values of its declared kind (or a narrower one);                                *)
(*  - the as-implemented evaluator (declared float -> float storage; otherwise storage from   *)
(*    the first row) is faithful in exactly the same cases IF the first row is the widest --  *)
(*    the states where it is not are the replay seeds ("narrow result first").               *)
EXTENDS Rows, TLC
CONSTANT MaxLen
VARIABLES declared, kinds
vars == <<declared, kinds>>
Kinds == {"b", "i", "f"}
Init == declared \in Kinds /\ kinds = <<>>
Next == Len(kinds) < MaxLen /\ \E k \in Kinds : kinds' = Append(kinds, k) /\ UNCHANGED declared
Spec == Init /\ [][Next]_vars
ImplStorage == IF declared = "f" THEN "f" ELSE IF kinds = <<>> THEN declared ELSE kinds[1]
ImplFaithful == \A i \in 1..Len(kinds) : Holds(ImplStorage, kinds[i])
\* a well-typed rule is always evaluated faithfully by both evaluators
WellTypedIsSafe == (kinds # <<>> /\ DeclaredFaithful(declared, kinds) /\ declared = "f") => ImplFaithful
\* the implementation's storage type is data dependent exactly for non-float declarations (documented weakness)
StorageIndependentOfData == declared = "f" => ImplStorage = declared
\* witness (expected to be VIOLATED): a mis-declared rule whose narrow first row corrupts later rows
NoCorruption == ImplFaithful
=============================================================================
