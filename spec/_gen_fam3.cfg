CONSTANTS
  MaxN = 3
  Ages = {24, 25}
  NHH = 2
  Family = TRUE
  Marriage = FALSE
SPECIFICATION Spec
INVARIANT InvNesting
INVARIANT InvBgInWthh
INVARIANT InvTwoGenerations
INVARIANT InvPointers
CHECK_DEADLOCK FALSE
