------------------------------ MODULE Aggregate ------------------------------
(* Mathematical definitions of the aggregations (GEP 4) over exact decimals (Dec.tla).     *)
(* A column is a sequence of values, ids a sequence of group labels of the same length.    *)
(*   GroupAgg(kind, col, ids)[i] = Op(kind, {col[j] : ids[j] = ids[i]})                      *)
(*   SumByPid(col, ptr, pid)[i]  = SUM {col[j] : ptr[j] = pid[i]}, negative pointers ignored *)
(*   Join(fk, pk, target, dflt)[i] = target[j] with pk[j] = fk[i], dflt if fk[i] < 0         *)
EXTENDS Dec, FiniteSets
Members(ids, i) == {j \in 1..Len(ids) : ids[j] = ids[i]}
RECURSIVE SumOver(_, _)
SumOver(col, S) == IF S = {} THEN Zero ELSE LET x == CHOOSE x \in S : TRUE IN Add(col[x], SumOver(col, S \ {x}))
MaxOver(col, S) == LET x == CHOOSE x \in S : \A y \in S : LE(col[y], col[x]) IN col[x]
MinOver(col, S) == LET x == CHOOSE x \in S : \A y \in S : LE(col[x], col[y]) IN col[x]
Truthy(v) == v.s # 0

\* does observed value `o` equal the aggregate of kind `kind` over the member set S ?
AggOK(kind, col, S, o, tol) ==
  CASE kind = "sum"   -> Close(o, SumOver(col, S), tol)
    [] kind = "mean"  -> Close(Mul(o, FromInt(Cardinality(S))), SumOver(col, S), tol)
    [] kind = "max"   -> EQ(o, MaxOver(col, S))
    [] kind = "min"   -> EQ(o, MinOver(col, S))
    \* any / all are truth values: exactly 1 or 0, not merely something truthy
    [] kind = "any"   -> EQ(o, IF \E j \in S : Truthy(col[j]) THEN One ELSE Zero)
    [] kind = "all"   -> EQ(o, IF \A j \in S : Truthy(col[j]) THEN One ELSE Zero)
    [] kind = "count" -> EQ(o, FromInt(Cardinality(S)))
GroupAggOK(kind, col, ids, obs, tol) == \A i \in 1..Len(ids) : AggOK(kind, col, Members(ids, i), obs[i], tol)
Receivers(ptr, p) == {j \in 1..Len(ptr) : ptr[j] = p}
SumByPidOK(col, ptr, pid, obs, tol) == \A i \in 1..Len(pid) : Close(obs[i], SumOver(col, Receivers(ptr, pid[i])), tol)
JoinOK(fk, pk, target, dflt, obs) ==
  \A i \in 1..Len(fk) :
     IF \E j \in 1..Len(pk) : pk[j] = fk[i]
     THEN obs[i] = target[CHOOSE j \in 1..Len(pk) : pk[j] = fk[i]]
     ELSE obs[i] = dflt

\* ---- theorems about the definitions (model-checked in MC_Aggregate on small columns)
Conservation(col, ids) ==        \* the group sums, taken once per group, add up to the column total
  LET reps == {CHOOSE j \in Members(ids, i) : \A k \in Members(ids, i) : j <= k : i \in 1..Len(ids)} IN
  EQ(SumOver([i \in 1..Len(ids) |-> SumOver(col, Members(ids, i))], reps), SumOver(col, 1..Len(col)))
ConstantInGroup(agg, ids) == \A i, j \in 1..Len(ids) : ids[i] = ids[j] => agg[i] = agg[j]
=============================================================================
