------------------------------ MODULE MC_Contrib ------------------------------
(* The regime machine on abstract parameters (small naturals): the wage advances step by      *)
(* step; an abstract contribution schedule with the statutory shape (zero, linear transition   *)
(* meeting the regular contribution at the upper zone boundary, proportional, capped) satisfies *)
(* all step properties; the regimes occur in order Mini -> Zone -> Regular -> Capped and each    *)
(* boundary belongs to the regime the statute says (<= mini is Mini, <= midi is Zone, >= cap    *)
(* is Capped).                                                                                   *)
EXTENDS Contrib, TLC
CONSTANTS MiniW, MidiW, CapW, MaxW, Rate     \* Rate in tenths
VARIABLES w, prev
vars == <<w, prev>>
D(n) == FromInt(n)
\* contribution in tenths of a unit so that everything stays integral: regular = Rate * w
Sched(x) == IF x <= MiniW THEN 0
            ELSE IF x <= MidiW THEN ((x - MiniW) * Rate * MidiW) \div (MidiW - MiniW)      \* rises from 0 to Rate * midi
            ELSE IF x < CapW THEN Rate * x ELSE Rate * CapW
Init == w = 0 /\ prev = 0
Next == w < MaxW /\ w' = w + 1 /\ prev' = w
Spec == Init /\ [][Next]_vars
R(x) == Regime(D(x), D(MiniW), D(MidiW), D(CapW))
Order(r) == CASE r = "Mini" -> 0 [] r = "Zone" -> 1 [] r = "Regular" -> 2 [] r = "Capped" -> 3
RegimesInOrder == Order(R(prev)) <= Order(R(w))
Boundaries == R(MiniW) = "Mini" /\ R(MiniW + 1) = "Zone" /\ R(MidiW) = "Zone" /\ R(MidiW + 1) = "Regular" /\ R(CapW) = "Capped" /\ R(CapW - 1) = "Regular"
StepOK == LET c == D(Sched(prev)) c2 == D(Sched(w)) IN
          /\ NonNeg(c2) /\ MiniZero(D(w), c2, D(MiniW)) /\ Monotone(c, c2)
          /\ CappedConstant(D(prev), c, c2, D(CapW))
          /\ (w > prev => NoJump(D(prev), D(w), D(Sched(prev) \div 10), D(Sched(w) \div 10), D(MiniW)))
=============================================================================
