CONSTANTS
  MaxN = 4
  Ages = {24, 25}
  NHH = 2
  Family = TRUE
  Marriage = FALSE
SPECIFICATION Spec
INVARIANT InvNesting
INVARIANT InvBgInWthh
INVARIANT InvPointers
CHECK_DEADLOCK FALSE
