----------------------------- MODULE Trace_Arith -----------------------------
(* Code -> spec for the arithmetic of derived nodes and rounding (C10, C11, C13).           *)
(* Values are indices into an exact value pool.  Events:                                    *)
(*  agg    [node, kind, src, ids, obs]          obs = GroupAgg(kind, src, ids)         (C11) *)
(*  pidsum [node, src, ptr, pid, obs]           obs = SumByPid(src, ptr, pid)          (C11) *)
(*  join   [fk, pk, target, dflt, obs]          obs = Join(...)                        (C11) *)
(*  conv   [a, ua, xa, b, ub, xb]               xa * F(ua) = xb * F(ub)                (C13) *)
(*  round  [node, base, dir, off, x, r, k]      r = RoundSpec(x) with witness k        (C10) *)
(*  equal  [node, x, y]                         x = y (rounding off: rounded = raw)    (C10) *)
(*  missingspec [node, raised]                  a rounding key without specification raises (C10) *)
EXTENDS Aggregate, Round, TimeUnits, TLC, Json, IOUtils
T == JsonDeserialize(IOEnv.TRACE_FILE)
Pool == T.pool
Ev == T.events
OutFile == IOEnv.OUT_FILE
VARIABLES l, bad, stats
vars == <<l, bad, stats>>
V(i) == Pool[i].v
Col(s) == [i \in 1..Len(s) |-> V(s[i])]
Finite(s) == \A i \in 1..Len(s) : IsFinite(V(s[i]))

Verdict(e) ==
  CASE e.k = "agg" ->
         IF ~(Finite(e.src) /\ Finite(e.obs)) THEN {"nonfinite"}
         ELSE IF GroupAggOK(e.kind, Col(e.src), e.ids, Col(e.obs), Tol1e9) THEN {} ELSE {"agg:" \o e.kind}
    [] e.k = "pidsum" ->
         IF ~(Finite(e.src) /\ Finite(e.obs)) THEN {"nonfinite"}
         ELSE IF SumByPidOK(Col(e.src), e.ptr, e.pid, Col(e.obs), Tol1e9) THEN {} ELSE {"pidsum"}
    [] e.k = "join" -> IF JoinOK(e.fk, e.pk, e.target, e.dflt, e.obs) THEN {} ELSE {"join"}
    [] e.k = "conv" ->
         IF ~(Finite(e.xa) /\ Finite(e.xb)) THEN {"nonfinite"}
         ELSE IF \A i \in 1..Len(e.xa) : SameFlowValue(V(e.xa[i]), e.ua, V(e.xb[i]), e.ub, Tol1e12) THEN {} ELSE {"conv"}
    [] e.k = "round" ->
         IF ~(Finite(e.x) /\ Finite(e.r)) THEN {"nonfinite"}
         ELSE IF \A i \in 1..Len(e.x) : RoundOK(V(e.x[i]), V(e.r[i]), e.base, e.dir, e.off, e.kk[i]) THEN {} ELSE {"round:" \o e.dir}
    [] e.k = "equal" -> IF \A i \in 1..Len(e.x) : e.x[i] = e.y[i] \/ (IsFinite(V(e.x[i])) /\ V(e.x[i]) = V(e.y[i])) THEN {} ELSE {"equal"}
    [] e.k = "missingspec" -> IF e.raised THEN {} ELSE {"missingspec-silent"}
    [] OTHER -> {"unknown-event"}

Init == l = 1 /\ bad = {} /\ stats = [n |-> 0]
Step == /\ l <= Len(Ev)
        /\ bad' = bad \cup {[e |-> l, c |-> c] : c \in Verdict(Ev[l])}
        /\ stats' = [n |-> stats.n + 1]
        /\ l' = l + 1
Spec == Init /\ [][Step]_vars
Done == (l = Len(Ev) + 1) => JsonSerialize(OutFile, [bad |-> bad, n |-> Len(Ev)])
Consumed == TLCGet("stats").diameter - 1 = Len(Ev)
=============================================================================
