CONSTANT Small = FALSE
SPECIFICATION Spec
INVARIANT TargetIndependence
INVARIANT SpecPrecedence
CHECK_DEADLOCK FALSE
