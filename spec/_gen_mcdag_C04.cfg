CONSTANTS
  Small = FALSE
  WithPid = FALSE
SPECIFICATION Spec
INVARIANT TargetIndependence
INVARIANT SpecPrecedence
CHECK_DEADLOCK FALSE
