------------------------------ MODULE Validate ------------------------------
(* Input validation as a fault model (C20).  A table is                                      *)
(*   rows  : sequence of [pid, hh, sp, pa, e1, e2, gv, hv]  (pointers are p_id LABELS or -1)  *)
(*   nopid : the p_id column is missing                                                       *)
(*   dropped, dup : sets of column names that are missing / occur twice                       *)
(*   dtype : column name |-> how the column is stored:                                        *)
(*            "ok", benign re-encodings ("int_as_float", "bool_as_int01", "bool_as_float01",  *)
(*            "float_as_int", "bool_as_intcol"), lossy ones ("int_frac", "int_frac_small" [a fraction of 1e-4: no tolerance], "bool_two", "bool_frac", "object") *)
(* Valid(t) is what the statement of C20 calls well-formed; every fault action of             *)
(* MC_Validate must lead to ~Valid, every benign action must preserve Valid.                  *)
EXTENDS Naturals, Integers, Sequences, FiniteSets
PtrCols == {"sp", "pa", "e1", "e2"}
Required == {"alter", "bruttolohn_m", "kind", "hh_id"}        \* representatives of required input columns
Lossy == {"int_frac", "int_frac_small", "bool_two", "bool_frac", "object"}
Benign == {"int_as_float", "bool_as_int01", "bool_as_float01", "float_as_int"}
Neutral == {"float_as_float32"}     \* the same kind stored narrower (values exactly representable): no conversion, no warning required, same results
Pids(t) == {t.rows[i].pid : i \in 1..Len(t.rows)}
Valid(t) ==
  /\ ~t.nopid
  /\ \A i, j \in 1..Len(t.rows) : i # j => t.rows[i].pid # t.rows[j].pid
  /\ \A i \in 1..Len(t.rows) : t.rows[i].pid >= 0
  /\ \A i \in 1..Len(t.rows) : \A c \in PtrCols :
        LET v == t.rows[i][c] IN (v = -1 \/ v \in Pids(t)) /\ v # t.rows[i].pid
  /\ \A i, j \in 1..Len(t.rows) : t.rows[i].hh = t.rows[j].hh => t.rows[i].hv = t.rows[j].hv
  /\ \A i, j \in 1..Len(t.rows) : (t.rows[i].sp = t.rows[j].pid /\ t.rows[j].sp = t.rows[i].pid) => t.rows[i].gv = t.rows[j].gv
  /\ t.dropped \cap Required = {}
  /\ t.dup = {}
  /\ \A c \in DOMAIN t.dtype : t.dtype[c] \notin Lossy
=============================================================================
