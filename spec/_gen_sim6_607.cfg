CONSTANTS
  MaxN = 6
  Ages = {10, 17, 24, 25, 40, 70}
  NHH = 2
  Family = TRUE
  Marriage = TRUE
SPECIFICATION Spec
INVARIANT InvNesting
INVARIANT InvPointers
CHECK_DEADLOCK FALSE
