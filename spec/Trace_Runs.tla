----------------------------- MODULE Trace_Runs -----------------------------
(* Relations between runs of the implementation on the same data (C04, C05, C06, C14).     *)
(* The specification (Dag.tla) makes the value of a node a function of the node's          *)
(* definition, its ancestors' definitions, the parameters they read and the data; the      *)
(* relations below are the consequences the properties state.  The first event of a trace   *)
(* id is the base run (with the function table `dag` of that run: name, arguments incl.     *)
(* *_params arguments, rounding key); every later event is judged against it:               *)
(*   same      common columns are identical                                  (C04, C14)     *)
(*   close     common columns agree to 1e-9 relative (input given in another unit) (C13)    *)
(*   targets   + the result has exactly the requested columns, all rows      (C04)          *)
(*   override  column `node` supplied as data: announced in `warned`; every other column    *)
(*             identical (1e-9 for descendants of another time unit of the flow)  (C05)     *)
(*   reform    parameter group / rule `id` changed: only descendants of its users change    *)
(*             (C06); `users` are computed here from the function table                     *)
(* Cells are indices into an exact value pool; identical = same index, or numerically equal *)
(* exact decimals of numeric type.                                                          *)
EXTENDS Dec, Names, TLC, Json, IOUtils
T == JsonDeserialize(IOEnv.TRACE_FILE)
Pool == T.pool
Ev == T.events
OutFile == IOEnv.OUT_FILE
VARIABLES l, base, bad, stats
vars == <<l, base, bad, stats>>

Numeric(t) == t \in {"f", "i", "b"}
Same(a, b) == \/ a = b
              \/ /\ Numeric(Pool[a].t) /\ Numeric(Pool[b].t) /\ IsFinite(Pool[a].v) /\ IsFinite(Pool[b].v)
                 /\ Pool[a].v = Pool[b].v
CloseTo(a, b) == \/ Same(a, b)
                 \/ /\ Numeric(Pool[a].t) /\ Numeric(Pool[b].t) /\ IsFinite(Pool[a].v) /\ IsFinite(Pool[b].v)
                    /\ Close(Pool[a].v, Pool[b].v, Tol1e9)

ColSet(e) == {e.cols[i] : i \in 1..Len(e.cols)}
Idx(e, c) == CHOOSE i \in 1..Len(e.cols) : e.cols[i] = c
ColSame(e, b, c) == LET i == Idx(e, c) j == Idx(b, c) IN \A r \in 1..Len(e.cells) : Same(e.cells[r][i], b.cells[r][j])
ColClose(e, b, c) == LET i == Idx(e, c) j == Idx(b, c) IN \A r \in 1..Len(e.cells) : CloseTo(e.cells[r][i], b.cells[r][j])
Common(e, b) == ColSet(e) \cap ColSet(b)

\* ---- the dependency graph of the base run
Dag(b) == b.dag                         \* sequence of [n, a (sequence of argument names), r (rounding key or "")]
RECURSIVE DescGrow(_, _)
DescGrow(S, D) == LET TT == S \cup {D[i].n : i \in {k \in 1..Len(D) : \E j \in 1..Len(D[k].a) : D[k].a[j] \in S}} IN
                  IF TT = S THEN S ELSE DescGrow(TT, D)
Users(b, kind, id) == IF kind = "params"
                      THEN {Dag(b)[i].n : i \in {k \in 1..Len(Dag(b)) : Dag(b)[k].r = id \/ \E j \in 1..Len(Dag(b)[k].a) : Dag(b)[k].a[j] = id \o "_params"}}
                      ELSE {id}

BadOf(e, b) ==
  LET shape == IF Len(e.cells) # Len(b.cells) THEN {[col |-> "*", c |-> "rows"]} ELSE {}
      common == IF shape # {} THEN {} ELSE Common(e, b)
  IN shape \cup
     CASE e.rel = "same" -> {[col |-> c, c |-> "value"] : c \in {c \in common : ~ColSame(e, b, c)}}
       [] e.rel = "close" -> {[col |-> c, c |-> "value"] : c \in {c \in common : ~ColClose(e, b, c)}}
       [] e.rel = "targets" ->
            {[col |-> c, c |-> "value"] : c \in {c \in common : ~ColSame(e, b, c)}}
            \cup (IF ColSet(e) # SeqToSet(e.requested) THEN {[col |-> "*", c |-> "columns"]} ELSE {})
       [] e.rel = "override" ->
            LET tol == DescGrow({c \in {Dag(b)[i].n : i \in 1..Len(Dag(b))} : SameFlow(c, e.node)} \cup {e.node}, Dag(b)) IN
            {[col |-> c, c |-> "value"] : c \in {c \in common : IF c \in tol THEN ~ColClose(e, b, c) ELSE ~ColSame(e, b, c)}}
            \cup (IF e.node \notin SeqToSet(e.warned) THEN {[col |-> e.node, c |-> "nowarning"]} ELSE {})
       [] e.rel = "reform" ->
            LET allowed == DescGrow(Users(b, e.kind, e.id), Dag(b)) IN
            {[col |-> c, c |-> "leak"] : c \in {c \in common \ allowed : ~ColSame(e, b, c)}}
       [] OTHER -> {[col |-> "*", c |-> "unknown-relation"]}

\* how many columns a reform / override was allowed to change and did change (vacuity guard)
ChangedAllowed(e, b) == IF e.rel = "reform" /\ Len(e.cells) = Len(b.cells)
                        THEN Cardinality({c \in Common(e, b) : ~ColSame(e, b, c)}) ELSE 0

Init == l = 1 /\ base = [tid |-> -1] /\ bad = {} /\ stats = [judged |-> 0, changed |-> 0]
Step ==
  /\ l <= Len(Ev)
  /\ LET e == Ev[l] IN
     IF e.tid # base.tid
     THEN base' = e /\ bad' = bad /\ stats' = stats
     ELSE /\ base' = base
          /\ bad' = bad \cup {[tid |-> e.tid, run |-> e.run, col |-> x.col, c |-> x.c] : x \in BadOf(e, base)}
          /\ stats' = [judged |-> stats.judged + 1, changed |-> stats.changed + ChangedAllowed(e, base)]
  /\ l' = l + 1
Spec == Init /\ [][Step]_vars
Done == (l = Len(Ev) + 1) => JsonSerialize(OutFile, [bad |-> bad, n |-> Len(Ev), stats |-> stats])
Consumed == TLCGet("stats").diameter - 1 = Len(Ev)
=============================================================================
