-------------------------- MODULE Trace_Households --------------------------
(* Code -> spec: observations of the implementation's id columns, recorded for a          *)
(* population under many row orders / p_id labellings, are validated against the          *)
(* reference partitions of Households.tla.                                                *)
(* Event: [pop |-> <<person records>>, obs |-> <<observation>>] where an observation is   *)
(* [err |-> "" or exception class, eg, ehe, sn, fg, bg, wthh |-> <<label per person>>].   *)
(* Verdict clauses (total: every event gets all clauses evaluated):                       *)
(*   generator   the population is not PointersOk (harness bug, not a violation)          *)
(*   raised      the implementation raised on a well-formed population                   *)
(*   orderdep:c  two observations of column c induce different partitions (C01)          *)
(*   ref:c       an observation of column c differs from the reference partition (C12)   *)
(*   nest:x      an observed nesting / injectivity relation fails (C12)                  *)
EXTENDS Households, TLC, Json, IOUtils
Trace == JsonDeserialize(IOEnv.TRACE_FILE)
OutFile == IOEnv.OUT_FILE
VARIABLES l, bad, stats
vars == <<l, bad, stats>>

Cols == {"eg", "ehe", "sn", "fg", "bg", "wthh"}
Ref(pop, c) == CASE c = "eg" -> EgRef(pop) [] c = "ehe" -> EheRef(pop) [] c = "sn" -> SnRef(pop)
                 [] c = "fg" -> FgRef(pop) [] c = "bg" -> BgRef(pop) [] c = "wthh" -> WthhRef(pop)

WvOk(p) == \A i \in Ids(p) : \A j \in BgRef(p)[i] : p[j].wv = p[i].wv

Verdicts(e) ==
  LET pop == e.pop
      U == Ids(pop)
      O == 1..Len(e.obs)
      good == {o \in O : e.obs[o].err = ""}
      part(o, c) == Induced(e.obs[o][c], U)
  IN IF ~PointersOk(pop) THEN {"generator"}
     ELSE
       (IF good # O THEN {"raised"} ELSE {})
       \cup {"orderdep:" \o c : c \in {c \in Cols : \E o1, o2 \in good : part(o1, c) # part(o2, c)}}
       \cup (IF Unambiguous(pop) /\ WvOk(pop)
             THEN {"ref:" \o c : c \in {c \in Cols : \E o \in good : part(o, c) # Ref(pop, c)}}
                  \cup (IF \E o \in good : ~Refines(part(o, "bg"), part(o, "fg"), U) THEN {"nest:bg-in-fg"} ELSE {})
                  \cup (IF \E o \in good : ~Refines(part(o, "fg"), HhRef(pop), U) THEN {"nest:fg-in-hh"} ELSE {})
                  \cup (IF \E o \in good : ~Refines(part(o, "bg"), part(o, "wthh"), U) THEN {"nest:bg-in-wthh"} ELSE {})
                  \cup (IF \E o \in good : ~Refines(part(o, "wthh"), HhRef(pop), U) THEN {"nest:wthh-in-hh"} ELSE {})
                  \cup (IF \E o \in good : ~Refines(part(o, "sn"), part(o, "ehe"), U) THEN {"nest:sn-in-ehe"} ELSE {})
                  \cup (IF \E o \in good : ~Refines(part(o, "eg"), part(o, "fg"), U) THEN {"nest:eg-in-fg"} ELSE {})
             ELSE {})

Init == l = 1 /\ bad = {} /\ stats = [judged |-> 0, unambiguous |-> 0]
Step == /\ l <= Len(Trace)
        /\ LET e == Trace[l]
               v == Verdicts(e) IN
           /\ bad' = bad \cup {[e |-> l, c |-> c] : c \in v}
           /\ stats' = [judged |-> stats.judged + 1,
                        unambiguous |-> stats.unambiguous + (IF PointersOk(e.pop) /\ Unambiguous(e.pop) /\ WvOk(e.pop) THEN 1 ELSE 0)]
        /\ l' = l + 1
Spec == Init /\ [][Step]_vars
Done == (l = Len(Trace) + 1) => JsonSerialize(OutFile, [bad |-> bad, n |-> Len(Trace), stats |-> stats])
Consumed == TLCGet("stats").diameter - 1 = Len(Trace)
=============================================================================
