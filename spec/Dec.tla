------------------------------- MODULE Dec -------------------------------
(* Exact decimal arithmetic for TLC (32-bit integers, no floats).                         *)
(* A number is a record [s, f, d]: sign s in {-1,0,1}, d little-endian limbs in base      *)
(* 10^4, f the number of fractional limbs: value = s * SUM d[i] * 10^(4*(i-1-f)).          *)
(* Every IEEE double is a dyadic rational and therefore has a finite decimal expansion;   *)
(* the harness passes doubles in this form without rounding (decimal.Decimal(float)).     *)
(* Special values carry s = 2 (NaN), 3 (+inf), -3 (-inf) and are never used in arithmetic. *)
EXTENDS Naturals, Integers, Sequences

B == 10000

Limb(a, i) == IF i <= Len(a) THEN a[i] ELSE 0

RECURSIVE Trim(_)
Trim(a) == IF a = <<>> THEN a
           ELSE IF a[Len(a)] = 0 THEN Trim(SubSeq(a, 1, Len(a) - 1)) ELSE a

RECURSIVE AddN(_, _, _, _)
AddN(a, b, i, c) ==
  IF i > Len(a) /\ i > Len(b) THEN (IF c = 0 THEN <<>> ELSE <<c>>)
  ELSE LET t == Limb(a, i) + Limb(b, i) + c IN <<t % B>> \o AddN(a, b, i + 1, t \div B)

\* a >= b assumed
RECURSIVE SubN(_, _, _, _)
SubN(a, b, i, br) ==
  IF i > Len(a) THEN <<>>
  ELSE LET t == Limb(a, i) - Limb(b, i) - br IN
       IF t < 0 THEN <<t + B>> \o SubN(a, b, i + 1, 1) ELSE <<t>> \o SubN(a, b, i + 1, 0)

RECURSIVE CmpFrom(_, _, _)
CmpFrom(a, b, i) == IF i = 0 THEN 0
                    ELSE IF Limb(a, i) > Limb(b, i) THEN 1
                    ELSE IF Limb(a, i) < Limb(b, i) THEN -1
                    ELSE CmpFrom(a, b, i - 1)
CmpN(a, b) == LET n == IF Len(a) > Len(b) THEN Len(a) ELSE Len(b) IN CmpFrom(a, b, n)

RECURSIVE MulSmall(_, _, _, _)
MulSmall(a, k, i, c) ==
  IF i > Len(a) THEN (IF c = 0 THEN <<>> ELSE <<c>>)
  ELSE LET t == a[i] * k + c IN <<t % B>> \o MulSmall(a, k, i + 1, t \div B)

Zeros(n) == [i \in 1..n |-> 0]

RECURSIVE MulN(_, _, _)
MulN(a, b, i) == IF i > Len(a) THEN <<>>
                 ELSE AddN(Zeros(i - 1) \o MulSmall(b, a[i], 1, 0), MulN(a, b, i + 1), 1, 0)

\* canonical form: no high zero limbs, no low zero limbs while fractional
RECURSIVE StripLow(_, _)
StripLow(f, d) == IF f > 0 /\ d # <<>> /\ d[1] = 0 THEN StripLow(f - 1, Tail(d)) ELSE <<f, d>>
Mk(s, f, d) == LET t == Trim(d) IN
               IF t = <<>> THEN [s |-> 0, f |-> 0, d |-> <<>>]
               ELSE LET c == StripLow(f, t) IN [s |-> s, f |-> c[1], d |-> c[2]]
Zero == [s |-> 0, f |-> 0, d |-> <<>>]
IsSpecial(x) == x.s \notin {-1, 0, 1}
IsFinite(x) == x.s \in {-1, 0, 1}

Neg(x) == [x EXCEPT !.s = 0 - x.s]
Abs(x) == [x EXCEPT !.s = IF x.s < 0 THEN 0 - x.s ELSE x.s]

Align(x, f) == Zeros(f - x.f) \o x.d

Add(x, y) ==
  IF x.s = 0 THEN y ELSE IF y.s = 0 THEN x ELSE
  LET f == IF x.f > y.f THEN x.f ELSE y.f
      a == Align(x, f)
      b == Align(y, f)
  IN IF x.s = y.s THEN Mk(x.s, f, AddN(a, b, 1, 0))
     ELSE LET c == CmpN(a, b) IN
          IF c = 0 THEN Zero
          ELSE IF c > 0 THEN Mk(x.s, f, SubN(a, b, 1, 0))
          ELSE Mk(y.s, f, SubN(b, a, 1, 0))
Sub(x, y) == Add(x, Neg(y))
Sign(x) == x.s
Cmp(x, y) == Sign(Sub(x, y))
LE(x, y) == Cmp(x, y) <= 0
LT(x, y) == Cmp(x, y) < 0
EQ(x, y) == Cmp(x, y) = 0
Mul(x, y) == IF x.s = 0 \/ y.s = 0 THEN Zero ELSE Mk(x.s * y.s, x.f + y.f, MulN(x.d, y.d, 1))
MaxD(x, y) == IF LE(x, y) THEN y ELSE x
MinD(x, y) == IF LE(x, y) THEN x ELSE y

RECURSIVE NatLimbs(_)
NatLimbs(n) == IF n = 0 THEN <<>> ELSE <<n % B>> \o NatLimbs(n \div B)
FromInt(n) == IF n = 0 THEN Zero ELSE IF n > 0 THEN [s |-> 1, f |-> 0, d |-> NatLimbs(n)]
              ELSE [s |-> -1, f |-> 0, d |-> NatLimbs(0 - n)]
One == FromInt(1)
\* n / 10^(4k)
Frac(n, k) == IF n = 0 THEN Zero ELSE [s |-> IF n > 0 THEN 1 ELSE -1, f |-> k, d |-> NatLimbs(IF n > 0 THEN n ELSE 0 - n)]

\* |x - y| <= tol * max(1, |x|, |y|)
Close(x, y, tol) == LE(Abs(Sub(x, y)), Mul(tol, MaxD(One, MaxD(Abs(x), Abs(y)))))
\* |x - y| <= tol (absolute)
Near(x, y, tol) == LE(Abs(Sub(x, y)), tol)
Tol9 == Frac(10, 3)      \* 1e-11?  10 / 10^12 = 1e-11
Tol1e9 == Frac(1000, 3)  \* 1000 / 10^12 = 1e-9
Tol1e6 == Frac(100, 2)   \* 100 / 10^8 = 1e-6
Tol1e12 == Frac(1, 3)    \* 1e-12
=============================================================================
