CONSTANT MaxLen = 3
SPECIFICATION Spec
INVARIANT NoCorruption
CHECK_DEADLOCK FALSE
