------------------------------ MODULE Trace_Rows ------------------------------
(* Code -> spec for C03.  Event: [fn, declared ("f"/"i"/"b"/"d"/"?"), order, scalar, column, *)
(*   dtype] : `scalar` are the results of the raw rule applied to each row alone, `column`    *)
(*   the production column for the same rows (exact rational strings), dtype its kind.        *)
(* State: seen[fn] = the dtype kind observed for fn so far (history variable).                *)
(*   cell      column # Column(f, rows)                                                       *)
(*   dtype-data   the dtype of fn's column differs between two data sets (depends on data)    *)
(*   dtype-declared  the dtype differs from the declared result type                          *)
EXTENDS Rows, TLC, Json, IOUtils
Ev == JsonDeserialize(IOEnv.TRACE_FILE)
OutFile == IOEnv.OUT_FILE
VARIABLES l, seen, bad
vars == <<l, seen, bad>>
Init == l = 1 /\ seen = [x \in {} |-> ""] /\ bad = {}
Step ==
  /\ l <= Len(Ev)
  /\ LET e == Ev[l] IN
     /\ bad' = bad
          \cup (IF e.column # e.scalar THEN {[e |-> l, c |-> "cell"]} ELSE {})
          \cup (IF e.fn \in DOMAIN seen /\ seen[e.fn] # e.dtype THEN {[e |-> l, c |-> "dtype-data"]} ELSE {})
          \cup (IF e.declared \in {"f", "i", "b"} /\ e.dtype # e.declared THEN {[e |-> l, c |-> "dtype-declared"]} ELSE {})
     /\ seen' = [x \in DOMAIN seen \cup {e.fn} |-> IF x = e.fn /\ x \notin DOMAIN seen THEN e.dtype ELSE IF x \in DOMAIN seen THEN seen[x] ELSE e.dtype]
  /\ l' = l + 1
Spec == Init /\ [][Step]_vars
Done == (l = Len(Ev) + 1) => JsonSerialize(OutFile, [bad |-> bad, n |-> Len(Ev)])
Consumed == TLCGet("stats").diameter - 1 = Len(Ev)
=============================================================================
