CONSTANTS
  MaxN = 3
  Ages = {17, 24, 25, 40}
  NHH = 2
  Family = TRUE
  Marriage = TRUE
SPECIFICATION Spec
INVARIANT InvNesting
INVARIANT InvBgInWthh
INVARIANT InvTwoGenerations
INVARIANT InvPointers
CHECK_DEADLOCK FALSE
