---------------------------- MODULE MC_Aggregate ----------------------------
(* Small columns and group assignments, built row by row; TLC checks the theorems about    *)
(* the specified aggregates on every one of them, and every state is replayed through the   *)
(* implementation's grouped_* / sum_by_p_id / join functions (harness/c11.py).              *)
EXTENDS Aggregate, TLC
CONSTANTS MaxRows, Vals, Ids
VARIABLES col, ids
vars == <<col, ids>>
Init == col = <<>> /\ ids = <<>>
AddRow == Len(col) < MaxRows /\ \E v \in Vals, g \in Ids : col' = Append(col, v) /\ ids' = Append(ids, g)
Spec == Init /\ [][AddRow]_vars
\* config files cannot contain negative numbers: the value of a row is col[i] - 1
D == [i \in 1..Len(col) |-> FromInt(col[i] - 1)]
Sums == [i \in 1..Len(ids) |-> SumOver(D, Members(ids, i))]
Maxs == [i \in 1..Len(ids) |-> MaxOver(D, Members(ids, i))]
InvConservation == Len(col) > 0 => Conservation(D, ids)
InvConstant == ConstantInGroup(Sums, ids) /\ ConstantInGroup(Maxs, ids)
InvSelfConsistent == \A k \in {"sum", "max", "min", "count"} :
   GroupAggOK(k, D, ids, [i \in 1..Len(ids) |->
       CASE k = "sum" -> Sums[i] [] k = "max" -> Maxs[i] [] k = "min" -> MinOver(D, Members(ids, i))
         [] k = "count" -> FromInt(Cardinality(Members(ids, i)))], Zero)
\* membership exactness: changing a value outside the group never changes the group's aggregate
InvMembership == \A i \in 1..Len(ids) : \A j \in 1..Len(ids) : ids[j] # ids[i] =>
   SumOver([D EXCEPT ![j] = FromInt(7)], Members(ids, i)) = Sums[i]
=============================================================================
