----------------------------- MODULE Households -----------------------------
(* Populations as pointer structures and the REFERENCE partitions into derived units      *)
(* (marriage, Einstandsgemeinschaft, tax unit, Familiengemeinschaft, Bedarfsgemeinschaft, *)
(* Wohngeld part-household).  Nothing here mentions row order: every definition is over   *)
(* the SET of persons.  A population is a sequence of person records; person i is the     *)
(* person with abstract identity i (the harness maps identities to arbitrary p_id labels  *)
(* and arbitrary row positions).                                                          *)
(*   hh      household label                                                              *)
(*   age     age in years                                                                 *)
(*   partner Einstandspartner (0 = none)     spouse  Ehepartner (0 = none)                *)
(*   gv      gemeinsam_veranlagt             e1, e2  parents (0 = none)                   *)
(*   eb      eigenbedarf_gedeckt             wv      Wohngeld priority flag of the person *)
EXTENDS Naturals, Integers, Sequences, FiniteSets

YoungAge == 25      \* SGB II: children under 25 belong to the parents' unit

Ids(pop) == 1..Len(pop)
Parents(pop, c) == {pop[c].e1, pop[c].e2} \ {0}
Children(pop, q) == {c \in Ids(pop) : q \in Parents(pop, c)}
Young(pop, c) == pop[c].age < YoungAge
\* c is a dependent child in the unit of its parent q
Belongs(pop, c, q) == /\ q \in Parents(pop, c)
                      /\ pop[c].hh = pop[q].hh
                      /\ Young(pop, c)
                      /\ Children(pop, c) = {}
IsDependent(pop, c) == \E q \in Parents(pop, c) : Belongs(pop, c, q)

\* ---------------------------------------------------------------- well-formedness
PointersOk(pop) ==
  \A i \in Ids(pop) :
     /\ pop[i].partner \in (Ids(pop) \cup {0}) \ {i}
     /\ pop[i].spouse \in (Ids(pop) \cup {0}) \ {i}
     /\ pop[i].e1 \in (Ids(pop) \cup {0}) \ {i}
     /\ pop[i].e2 \in (Ids(pop) \cup {0}) \ {i}
     /\ (pop[i].partner # 0 => pop[pop[i].partner].partner = i)
     /\ (pop[i].spouse # 0 => pop[pop[i].spouse].spouse = i)
     /\ (pop[i].spouse # 0 => pop[pop[i].spouse].gv = pop[i].gv)
     /\ (pop[i].partner # 0 => pop[pop[i].partner].hh = pop[i].hh)
     /\ (pop[i].e1 # 0 /\ pop[i].e2 # 0 => pop[i].e1 # pop[i].e2)
     /\ pop[i].partner \notin Parents(pop, i)
     /\ pop[i].spouse \notin Parents(pop, i)

\* Structures for which the unit definitions of the statement are unambiguous.
\* V1: a child that is a dependent of two co-resident parents requires them to be partners.
\* V2: a dependent child has no partner of its own.
\* V3: only dependent children are flagged as covering their own needs.
\* V4: nobody is their own ancestor (parent pointers form a forest-like relation).
Unambiguous(pop) ==
  /\ \A c \in Ids(pop) :
        LET bq == {q \in Parents(pop, c) : Belongs(pop, c, q)} IN
        /\ (Cardinality(bq) = 2 => \A q \in bq : pop[q].partner \in bq)
        /\ (bq # {} => pop[c].partner = 0)
        /\ (pop[c].eb => bq # {})
  /\ \A c \in Ids(pop) : \A q \in Parents(pop, c) : c \notin Parents(pop, q)

Valid(pop) == PointersOk(pop) /\ Unambiguous(pop)

\* ---------------------------------------------------------------- partitions
\* A partition is represented as a function person |-> class (set of persons).
\* R is a set of pairs <<a, b>>; the closure is taken symmetrically
RECURSIVE Grow(_, _, _)
Grow(S, R, U) == LET T == S \cup {b \in U : \E a \in S : <<a, b>> \in R \/ <<b, a>> \in R} IN
                 IF T = S THEN S ELSE Grow(T, R, U)

EheRef(pop) == [i \in Ids(pop) |-> {i} \cup ({pop[i].spouse} \ {0})]
EgRef(pop)  == [i \in Ids(pop) |-> {i} \cup ({pop[i].partner} \ {0})]
SnRef(pop)  == [i \in Ids(pop) |-> IF pop[i].spouse # 0 /\ pop[i].gv THEN {i, pop[i].spouse} ELSE {i}]
HhRef(pop)  == [i \in Ids(pop) |-> {j \in Ids(pop) : pop[j].hh = pop[i].hh}]
FgEdges(pop) == {<<a, b>> \in Ids(pop) \X Ids(pop) : pop[a].partner = b \/ Belongs(pop, a, b)}
FgRef(pop)  == LET R == FgEdges(pop) IN [i \in Ids(pop) |-> Grow({i}, R, Ids(pop))]
\* needs unit: the family unit without the dependent children who cover their own needs
SplitsOff(pop, i) == Young(pop, i) /\ pop[i].eb
BgRef(pop)  == LET fg == FgRef(pop) IN
               [i \in Ids(pop) |-> IF SplitsOff(pop, i) THEN {i}
                                    ELSE {j \in fg[i] : ~SplitsOff(pop, j)}]
WthhRef(pop) == [i \in Ids(pop) |-> {j \in Ids(pop) : pop[j].hh = pop[i].hh /\ pop[j].wv = pop[i].wv}]

IsPartition(part, U) == /\ \A i \in U : i \in part[i]
                        /\ \A i \in U : \A j \in part[i] : part[j] = part[i]
Refines(fine, coarse, U) == \A i \in U : fine[i] \subseteq coarse[i]

\* the nesting the statement asserts, as a theorem about the reference on valid populations
Nesting(pop) ==
  LET U == Ids(pop) IN
  /\ IsPartition(EheRef(pop), U) /\ IsPartition(EgRef(pop), U) /\ IsPartition(SnRef(pop), U)
  /\ IsPartition(FgRef(pop), U) /\ IsPartition(BgRef(pop), U)
  /\ Refines(SnRef(pop), EheRef(pop), U)
  /\ Refines(EgRef(pop), FgRef(pop), U)
  /\ Refines(BgRef(pop), FgRef(pop), U)
  /\ Refines(FgRef(pop), HhRef(pop), U)
  /\ Refines(WthhRef(pop), HhRef(pop), U)

\* an observed id column (function person |-> integer label) induces this partition
Induced(ids, U) == [i \in U |-> {j \in U : ids[j] = ids[i]}]
SamePartition(ids, ref, U) == Induced(ids, U) = ref
=============================================================================
