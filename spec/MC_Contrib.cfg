CONSTANTS
  MiniW = 4
  MidiW = 8
  CapW = 14
  MaxW = 20
  Rate = 2
SPECIFICATION Spec
INVARIANT RegimesInOrder
INVARIANT Boundaries
INVARIANT StepOK
CHECK_DEADLOCK FALSE
