----------------------------- MODULE Trace_Sched -----------------------------
(* Code -> spec for C18.  Events:                                                            *)
(*  sched [param, day, raw, parsed]   the law's schedule (raw, resolved by date) and the      *)
(*        arrays the implementation parsed from it: WellFormed(raw), ParsedOK, and for the     *)
(*        named schedules the shape lemmas (tags in `shape`)                                   *)
(*  eval  [param, xs, ys]             piecewise_polynomial / the tariff rule evaluated at xs   *)
(*        must equal Eval(parsed, x) of the preceding sched event to 1e-9 relative             *)
(*  evalm [param, m, xs, ys]          the same with rates_multiplier = m: EvalMul(parsed, x, m) *)
EXTENDS Schedules, TLC, Json, IOUtils
Ev == JsonDeserialize(IOEnv.TRACE_FILE)
OutFile == IOEnv.OUT_FILE
VARIABLES l, cur, bad
vars == <<l, cur, bad>>
Eps == Tol1e12
ShapeVerdict(e) ==
  LET p == e.parsed IN
  (IF "continuous" \in e.shape /\ ~Continuous(p, Tol1e9) THEN {"shape:continuous"} ELSE {})
  \cup (IF "nondecreasing" \in e.shape /\ ~NonDecreasing(p, Eps) THEN {"shape:nondecreasing"} ELSE {})
  \cup (IF "convex" \in e.shape /\ ~Convex(p, Eps) THEN {"shape:convex"} ELSE {})
  \cup (IF "toprate" \in e.shape /\ ~TopRateBound(p, Eps) THEN {"shape:toprate"} ELSE {})
  \cup (IF "zero-allowance" \in e.shape /\ ~ZeroUpToAllowance(p) THEN {"shape:zero-allowance"} ELSE {})
  \cup (IF "below-nominal" \in e.shape /\ ~BelowNominal(p, Frac(100, 1)) THEN {"shape:below-nominal"} ELSE {})
Verdict(e) ==
  IF e.k = "sched" THEN
     (IF ~WellFormed(e.raw) THEN {"malformed"} ELSE
        (IF ~ParsedOK(e.raw, e.parsed, Tol1e12) THEN {"parsed"} ELSE {}) \cup ShapeVerdict([e EXCEPT !.shape = {e.shape[i] : i \in 1..Len(e.shape)}]))
  ELSE IF e.k = "evalm" THEN (IF \E i \in 1..Len(e.xs) : ~Close(e.ys[i], EvalMul(cur.parsed, e.xs[i], e.m), Tol1e9) THEN {"evalm"} ELSE {})
  ELSE IF \E i \in 1..Len(e.xs) : ~Close(e.ys[i], Eval(cur.parsed, e.xs[i]), Tol1e9) THEN {"eval"} ELSE {}
Init == l = 1 /\ cur = [param |-> ""] /\ bad = {}
Step == /\ l <= Len(Ev)
        /\ cur' = IF Ev[l].k = "sched" THEN Ev[l] ELSE cur
        /\ bad' = bad \cup {[e |-> l, c |-> c] : c \in Verdict(Ev[l])}
        /\ l' = l + 1
Spec == Init /\ [][Step]_vars
Done == (l = Len(Ev) + 1) => JsonSerialize(OutFile, [bad |-> bad, n |-> Len(Ev)])
Consumed == TLCGet("stats").diameter - 1 = Len(Ev)
=============================================================================
