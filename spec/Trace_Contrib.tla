---------------------------- MODULE Trace_Contrib ----------------------------
(* Code -> spec for C19.  Event = one wage sweep of the real contribution rules:              *)
(*  [branch, mini, midi, cap = <<cap per insurance>>, pts = <<[w, an, ag, tot, gering, gleit]>>] *)
(*  an / ag / tot: sequences over the insurance branches (pension, unemployment, health,       *)
(*  long-term care) of employee contribution, employer contribution, transition-zone total.    *)
(* The behaviour "wage increases" is checked step by step with the properties of Contrib.tla;  *)
(* the observed flags must equal the regime computed from the parameters.                      *)
EXTENDS Contrib, TLC, Json, IOUtils, FiniteSets
Ev == JsonDeserialize(IOEnv.TRACE_FILE)
OutFile == IOEnv.OUT_FILE
VARIABLES l, bad
vars == <<l, bad>>
K == 1..4
Names == <<"ges_rentenv", "arbeitsl_v", "ges_krankenv", "ges_pflegev">>
PointVerdict(e, i) ==
  LET p == e.pts[i]
      reg == Regime(p.w, e.mini, e.midi, e.cap[1]) IN
  (IF p.gering # LE(p.w, e.mini) THEN {"flag:geringfügig_beschäftigt"} ELSE {})
  \cup (IF p.gleit # (LT(e.mini, p.w) /\ LE(p.w, e.midi)) THEN {"flag:in_gleitzone"} ELSE {})
  \cup UNION {(IF ~NonNeg(p.an[k]) THEN {"negative:" \o Names[k]} ELSE {})
              \cup (IF ~MiniZero(p.w, p.an[k], e.mini) THEN {"minijob-not-zero:" \o Names[k]} ELSE {})
              \cup (IF ~ZoneSum(p.gleit, p.an[k], p.ag[k], p.tot[k]) THEN {"zone-sum:" \o Names[k]} ELSE {}) : k \in K}
StepVerdict(e, i) ==
  LET p == e.pts[i] q == e.pts[i + 1] IN
  UNION {(IF ~Monotone(p.an[k], q.an[k]) THEN {"decreasing:" \o Names[k]} ELSE {})
         \cup (IF ~CappedConstant(p.w, p.an[k], q.an[k], e.cap[k]) THEN {"not-constant-above-ceiling:" \o Names[k]} ELSE {})
         \cup (IF ~NoJump(p.w, q.w, p.an[k], q.an[k], e.mini) THEN {"jump:" \o Names[k]} ELSE {}) : k \in K}
Verdict(e) == UNION {PointVerdict(e, i) : i \in 1..Len(e.pts)} \cup UNION {StepVerdict(e, i) : i \in 1..(Len(e.pts) - 1)}
                \cup (IF \E i \in 1..(Len(e.pts) - 1) : ~LT(e.pts[i].w, e.pts[i + 1].w) THEN {"sweep-not-increasing"} ELSE {})
Init == l = 1 /\ bad = {}
Step == l <= Len(Ev) /\ bad' = bad \cup {[e |-> l, c |-> c] : c \in Verdict(Ev[l])} /\ l' = l + 1
Spec == Init /\ [][Step]_vars
Done == (l = Len(Ev) + 1) => JsonSerialize(OutFile, [bad |-> bad, n |-> Len(Ev)])
Consumed == TLCGet("stats").diameter - 1 = Len(Ev)
=============================================================================
