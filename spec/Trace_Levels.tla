----------------------------- MODULE Trace_Levels -----------------------------
(* C15.  Events:                                                                              *)
(*  dag  [nodes = <<[n, a, kind]>>, data = <<names>>]   -> the static candidates (Levels.tla)   *)
(*  col  [node, group, ids, vals]   a group-suffixed column of a real run with the id column of  *)
(*       its group: must have one value per group                                                *)
EXTENDS Levels, Json, IOUtils
T == JsonDeserialize(IOEnv.TRACE_FILE)
Ev == T.events
OutFile == IOEnv.OUT_FILE
VARIABLES l, bad, cands
vars == <<l, bad, cands>>
ConstantPerGroup(e) == \A i, j \in 1..Len(e.ids) : e.ids[i] = e.ids[j] => e.vals[i] = e.vals[j]
Init == l = 1 /\ bad = {} /\ cands = {}
Step == /\ l <= Len(Ev)
        /\ LET e == Ev[l] IN
           IF e.k = "dag" THEN cands' = cands \cup Candidates(e.nodes, SeqToSet(e.data)) /\ bad' = bad
           ELSE cands' = cands /\ bad' = bad \cup (IF ConstantPerGroup(e) THEN {} ELSE {[e |-> l, c |-> "not-constant"]})
        /\ l' = l + 1
Spec == Init /\ [][Step]_vars
Done == (l = Len(Ev) + 1) => JsonSerialize(OutFile, [bad |-> bad, n |-> Len(Ev), candidates |-> cands])
Consumed == TLCGet("stats").diameter - 1 = Len(Ev)
=============================================================================
