CONSTANT MaxFaults = 2
CONSTANT OrderSet = {1, 2, 3, 4, 5, 6}
SPECIFICATION Spec
INVARIANT FaultBreaksValid
INVARIANT BenignKeepsValid
CHECK_DEADLOCK FALSE
