------------------------------ MODULE Trace_Sep ------------------------------
(* C02: separability and relabelling.  In the specification every result of a person is a   *)
(* function of the records of the persons that person is connected to through household      *)
(* membership and pointers (Households.tla, Aggregate.tla); identifiers are labels.  Hence   *)
(*   restrict(simulate(A ++ B), A) = simulate(A)      and      simulate(rho(A)) = rho(simulate(A)). *)
(* Trace: the first event of a trace id is simulate(A) (the base).  Later events carry, per   *)
(* row, the IDENTITY of the person (its p_id in the base labelling), and a relabelling rho    *)
(* (from/to sequences; identity for union runs).  Judged per base person and column:          *)
(*   value columns   : identical (same pool entry or equal exact numbers)                     *)
(*   derived ids     : same partition of the base persons                                     *)
(*   p_id_* outputs  : equal modulo rho                                                       *)
(*   dtype class     : the column's type tag is the same as in the base                       *)
EXTENDS Dec, TLC, Json, IOUtils, FiniteSets, Sequences
T == JsonDeserialize(IOEnv.TRACE_FILE)
Pool == T.pool
Ev == T.events
OutFile == IOEnv.OUT_FILE
IdCols == {"wthh_id", "fg_id", "bg_id", "eg_id", "ehe_id", "sn_id"}
VARIABLES l, base, bad, ncmp
vars == <<l, base, bad, ncmp>>
IsPtrCol(c) == Len(c) > 5 /\ SubSeq(c, 1, 5) = "p_id_"
Numeric(t) == t \in {"f", "i", "b"}
Same(a, b) == \/ a = b
              \/ /\ Numeric(Pool[a].t) /\ Numeric(Pool[b].t) /\ IsFinite(Pool[a].v) /\ IsFinite(Pool[b].v) /\ Pool[a].v = Pool[b].v
Rows(e) == 1..Len(e.ident)
RowOfIdent(e, p) == CHOOSE r \in Rows(e) : e.ident[r] = p
BaseIdents(b) == {b.ident[r] : r \in Rows(b)}
Covers(e, b) == BaseIdents(b) \subseteq {e.ident[r] : r \in Rows(e)} /\ \A r \in Rows(e) : Len(e.cells[r]) = Len(b.cols)
\* rho as a function on labels that occur; labels outside (e.g. -1) are fixed
Rho(e, x) == IF \E i \in 1..Len(e.rho_from) : e.rho_from[i] = x THEN e.rho_to[CHOOSE i \in 1..Len(e.rho_from) : e.rho_from[i] = x] ELSE x
IntOf(cell) == cell      \* pointer cells are compared through their pool entries below
PtrSame(e, a, b) ==      \* a: cell in e, b: cell in base ; both integer-valued
  LET va == Pool[a].v vb == Pool[b].v IN
  \/ a = b /\ e.rho_from = <<>>
  \/ \E i \in 1..Len(e.rho_from) : FromInt(e.rho_from[i]) = vb /\ FromInt(e.rho_to[i]) = va
  \/ (va = vb /\ \A i \in 1..Len(e.rho_from) : FromInt(e.rho_from[i]) # vb)

BadCols(e, b) ==
  LET re == [p \in BaseIdents(b) |-> RowOfIdent(e, p)]
      rb == [p \in BaseIdents(b) |-> RowOfIdent(b, p)] IN
  {<<c, "partition">> : c \in {c \in 1..Len(b.cols) : b.cols[c] \in IdCols /\
        \E p, q \in BaseIdents(b) : (e.cells[re[p]][c] = e.cells[re[q]][c]) # (b.cells[rb[p]][c] = b.cells[rb[q]][c])}}
  \cup {<<c, "pointer">> : c \in {c \in 1..Len(b.cols) : IsPtrCol(b.cols[c]) /\
        \E p \in BaseIdents(b) : ~PtrSame(e, e.cells[re[p]][c], b.cells[rb[p]][c])}}
  \cup {<<c, "value">> : c \in {c \in 1..Len(b.cols) : b.cols[c] \notin IdCols /\ ~IsPtrCol(b.cols[c]) /\
        \E p \in BaseIdents(b) : ~Same(e.cells[re[p]][c], b.cells[rb[p]][c])}}
  \cup {<<c, "dtype">> : c \in {c \in 1..Len(b.cols) :
        \E p \in BaseIdents(b) : Pool[e.cells[re[p]][c]].t # Pool[b.cells[rb[p]][c]].t}}

Init == l = 1 /\ base = [tid |-> -1] /\ bad = {} /\ ncmp = 0
Step ==
  /\ l <= Len(Ev)
  /\ LET e == Ev[l] IN
     IF e.tid # base.tid
     THEN base' = e /\ bad' = bad /\ ncmp' = ncmp
     ELSE /\ base' = base /\ ncmp' = ncmp + 1
          /\ IF ~Covers(e, base)
             THEN bad' = bad \cup {[tid |-> e.tid, run |-> e.run, col |-> "*", kind |-> "shape"]}
             ELSE bad' = bad \cup {[tid |-> e.tid, run |-> e.run, col |-> base.cols[x[1]], kind |-> x[2]] : x \in BadCols(e, base)}
  /\ l' = l + 1
Spec == Init /\ [][Step]_vars
Done == (l = Len(Ev) + 1) => JsonSerialize(OutFile, [bad |-> bad, n |-> Len(Ev), compared |-> ncmp])
Consumed == TLCGet("stats").diameter - 1 = Len(Ev)
=============================================================================
