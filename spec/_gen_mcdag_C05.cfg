CONSTANT Small = FALSE
SPECIFICATION Spec
INVARIANT OverrideEquivalence
CHECK_DEADLOCK FALSE
