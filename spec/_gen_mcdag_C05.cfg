CONSTANT Small = TRUE
SPECIFICATION Spec
INVARIANT OverrideEquivalence
CHECK_DEADLOCK FALSE
