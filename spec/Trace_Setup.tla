----------------------------- MODULE Trace_Setup -----------------------------
(* Code -> spec: set-up derived values of real environments.                                   *)
(*  [k = "kizmax", year, rawHas, raw, obsHas, obs, regel, kdu, heiz, kg1]                       *)
EXTENDS Setup, TLC, Json, IOUtils, Sequences
Ev == JsonDeserialize(IOEnv.TRACE_FILE)
OutFile == IOEnv.OUT_FILE
VARIABLES l, bad, nder
vars == <<l, bad, nder>>
Verdict(e) == IF e.k = "kizmax" /\ ~KizMaxOK(e, Tol1e9) THEN {"derived:kinderzuschl.maximum"} ELSE {}
Init == l = 1 /\ bad = {} /\ nder = 0
Step == /\ l <= Len(Ev)
        /\ bad' = bad \cup {[e |-> l, c |-> c] : c \in Verdict(Ev[l])}
        /\ nder' = nder + (IF KizMaxDerivedYear(Ev[l].year) THEN 1 ELSE 0)
        /\ l' = l + 1
Spec == Init /\ [][Step]_vars
Done == (l = Len(Ev) + 1) => JsonSerialize(OutFile, [bad |-> bad, n |-> Len(Ev), derived |-> nder])
Consumed == TLCGet("stats").diameter - 1 = Len(Ev)
=============================================================================
