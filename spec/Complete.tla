------------------------------ MODULE Complete ------------------------------
(* C08: completeness of the system at a date.  From the rules active at the date, the         *)
(* built-in aggregation specs, the documented input variables as data columns and the default *)
(* targets, Derive.tla gives the function table; the pruned dependency graph (ancestors of     *)
(* the targets) must be acyclic, each of its leaves a documented input, and every rounded      *)
(* rule in it must have a rounding specification at the date.                                   *)
EXTENDS Derive, TLC
IsParams(a) == EndsWith(a, "_params")
RECURSIVE AncGrow(_, _)
AncGrow(S, tab) == LET TT == S \cup UNION {{a \in tab[n].args : ~IsParams(a)} : n \in S \cap DOMAIN tab} IN
                   IF TT = S THEN S ELSE AncGrow(TT, tab)
Ancestors(tab, T) == AncGrow(T, tab)
Leaves(tab, T) == Ancestors(tab, T) \ DOMAIN tab
\* peel off nodes all of whose (non-parameter) arguments are already resolved; a remainder means a cycle
RECURSIVE Peel(_, _, _)
Peel(todo, done, tab) == LET ready == {n \in todo : \A a \in tab[n].args : IsParams(a) \/ a \in done} IN
                         IF ready = {} THEN todo ELSE Peel(todo \ ready, done \cup ready, tab)
CycleRemainder(tab, T, data) == Peel(Ancestors(tab, T) \cap DOMAIN tab, (Ancestors(tab, T) \ DOMAIN tab), tab)
MissingTargets(tab, T, data) == T \ (DOMAIN tab \cup data)
UndocumentedLeaves(tab, T, data) == Leaves(tab, T) \ data
RoundedInDag(tab, T) == {n \in Ancestors(tab, T) \cap DOMAIN tab : tab[n].round # ""}
=============================================================================
