CONSTANTS
  Days = {1, 2, 3, 4}
  MaxLen = 3
SPECIFICATION Spec
INVARIANT AtMostOnePerDay
INVARIANT RejectionsJustified
CHECK_DEADLOCK FALSE
