----------------------------- MODULE MC_Register -----------------------------
(* Registration of dated implementations of ONE column name (shared.policy_info):          *)
(* an implementation with inclusive validity interval [s, e] is accepted iff it overlaps   *)
(* no implementation accepted before; otherwise registration raises.  Theorem: on every    *)
(* day at most one accepted implementation is valid.  The reachable histories are replayed *)
(* through the real decorator (harness/mc_timeline.py: replay_registration).               *)
EXTENDS Naturals, Sequences, FiniteSets
CONSTANTS Days, MaxLen
VARIABLE hist            \* sequence of [s, e, ok]
Overlaps(a, b) == a.s <= b.e /\ b.s <= a.e            \* inclusive bounds on both sides
Accepted(h) == {h[i] : i \in {k \in 1..Len(h) : h[k].ok}}
Outcome(h, s, e) == \A a \in Accepted(h) : ~Overlaps(a, [s |-> s, e |-> e])
Init == hist = <<>>
Register == /\ Len(hist) < MaxLen
            /\ \E s \in Days, e \in Days : s <= e /\ hist' = Append(hist, [s |-> s, e |-> e, ok |-> Outcome(hist, s, e)])
Spec == Init /\ [][Register]_hist
AtMostOnePerDay == \A d \in Days : Cardinality({i \in 1..Len(hist) : hist[i].ok /\ hist[i].s <= d /\ d <= hist[i].e}) <= 1
\* a rejected attempt really collides with an accepted one on some day
RejectionsJustified == \A i \in 1..Len(hist) : ~hist[i].ok =>
                          \E d \in Days : hist[i].s <= d /\ d <= hist[i].e /\
                             \E j \in 1..(i - 1) : hist[j].ok /\ hist[j].s <= d /\ d <= hist[j].e
=============================================================================
