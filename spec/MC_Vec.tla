------------------------------- MODULE MC_Vec -------------------------------
(* All programs of a menu of the documented restricted style (if/elif/else with single       *)
(* assignment, augmented assignment or return; and/or/not; conditional expressions;         *)
(* min/max/sum/any/all).  For each program TLC applies the rewrite as implemented (Visit)    *)
(* and evaluates the scalar and the array semantics on a set of input pairs.                 *)
(* State: a program and what the specification predicts for it:                              *)
(*   res.visit  "ok" / "err"              (TranslateToVectorizableError at rewrite time)     *)
(*   res.runs   per input pair: scalar results per row, array result per row or "callerr"    *)
(*   res.faithful  every run either fails loudly or returns the scalar results               *)
(*   res.cls    the quirk classes the program exhibits (Q2 else-less `+=`, Q3 else branch    *)
(*              of another statement kind, Q4 reducer of one iterable)                       *)
(* Theorem checked: an unfaithful translation is always explained by one of these classes.   *)
EXTENDS VecSem
CONSTANT Full
VARIABLES stage, pick, prog, res
vars == <<stage, pick, prog, res>>

NoF == <<>>
Nm(x) == Name(x)
K(p) == Node("Constant", [value |-> Prim(p)])
Bin(x, o, y) == Node("BinOp", [left |-> x, op |-> Node(o, NoF), right |-> y])
Un(o, x) == Node("UnaryOp", [op |-> Node(o, NoF), operand |-> x])
Cmp(x, o, y) == Node("Compare", [left |-> x, ops |-> List(<<Node(o, NoF)>>), comparators |-> List(<<y>>)])
Bo(o, xs) == Node("BoolOp", [op |-> Node(o, NoF), values |-> List(xs)])
Ife(c, x, y) == Node("IfExp", [test |-> c, body |-> x, orelse |-> y])
Cl(f, xs) == Node("Call", [func |-> Nm(f), args |-> List(xs), keywords |-> List(<<>>)])
Ls(xs) == Node("List", [elts |-> List(xs)])
Asg(t, e) == Node("Assign", [targets |-> List(<<Nm(t)>>), value |-> e])
Aug(t, e) == Node("AugAssign", [target |-> Nm(t), op |-> Node("Add", NoF), value |-> e])
AugO(t, o, e) == Node("AugAssign", [target |-> Nm(t), op |-> Node(o, NoF), value |-> e])
Ret(e) == Node("Return", [value |-> e])
IfS(c, b, o) == Node("If", [test |-> c, body |-> List(b), orelse |-> List(o)])

A == Nm("a")  B == Nm("b")  C == Nm("c")  O == Nm("out")
ExprsSmall == { A, B, K("int:1") }
Exprs == IF Full
         THEN { A, B, K("int:1"), Bin(A, "Add", B), Un("USub", A), Cl("max", <<A, B>>), Cl("min", <<A, K("int:1")>>),
                Cl("max", <<Ls(<<A, B>>)>>), Cl("sum", <<Ls(<<A, B>>)>>), Ife(C, A, B), Un("USub", Cl("max", <<A, B>>)), Cl("sum", <<Ls(<<A, B>>), K("int:1")>>) }
         ELSE { A, K("int:1"), Bin(A, "Add", B), Cl("max", <<A, B>>), Cl("min", <<Ls(<<A, B>>)>>), Ife(C, A, B), Un("USub", Cl("min", <<A, B>>)),
                Cl("sum", <<Ls(<<A, B>>), K("int:1")>>) }     \* a reducer with a second positional argument: rejected by the rewrite
Conds == IF Full
         THEN { C, Cmp(A, "Gt", B), Un("Not", C), Bo("And", <<C, Cmp(A, "Gt", K("int:0"))>>), Bo("Or", <<Cmp(A, "Gt", B), C>>),
                Cl("any", <<Ls(<<C, Cmp(A, "Gt", B)>>)>>), Un("Not", Bo("And", <<C, Cmp(A, "Gt", B)>>)), Cl("all", <<Ls(<<C, Cmp(A, "Gt", K("int:0"))>>)>>),
                Bo("And", <<Un("Not", C), Un("Not", Cmp(A, "Gt", B))>>), Bo("Or", <<Un("Not", C), Un("Not", Cmp(A, "Gt", B)), Cmp(B, "Gt", K("int:1"))>>),
                \* every comparison operator, plain and negated (operands are equal in some environments)
                Un("Not", Cmp(A, "GtE", B)), Un("Not", Cmp(A, "Lt", B)), Cmp(A, "LtE", B), Un("Not", Cmp(A, "LtE", B)), Un("Not", Cmp(A, "Eq", B)), Cmp(A, "NotEq", B) }
         ELSE { C, Cmp(A, "Gt", B), Un("Not", C), Bo("And", <<C, Cmp(A, "Gt", K("int:0"))>>), Cl("any", <<Ls(<<C, Cmp(A, "Gt", B)>>)>>),
                Bo("Or", <<Un("Not", C), Un("Not", Cmp(A, "Gt", B))>>), Un("Not", Cmp(A, "GtE", B)), Un("Not", Cmp(A, "Lt", B)), Cmp(A, "LtE", B) }
Kinds == {"asg", "aug", "if-asg", "if-aug", "if-asg-asg", "if-aug-aug", "if-aug-asg", "if-asg-aug", "if-ret-ret", "if-ret", "elif", "ret-expr", "if-asg-other",
          "if-sub-sub", "if-mul-mul"}      \* augmented assignments with other operators than +
Inits == {A, K("int:1")}

\* the statement(s) for a kind, a condition and expressions
Middle(kind, c, e1, e2) ==
  CASE kind = "asg" -> <<Asg("out", e1)>>
    [] kind = "aug" -> <<Aug("out", e1)>>
    [] kind = "if-asg" -> <<IfS(c, <<Asg("out", e1)>>, <<>>)>>
    [] kind = "if-aug" -> <<IfS(c, <<Aug("out", e1)>>, <<>>)>>
    [] kind = "if-asg-asg" -> <<IfS(c, <<Asg("out", e1)>>, <<Asg("out", e2)>>)>>
    [] kind = "if-aug-aug" -> <<IfS(c, <<Aug("out", e1)>>, <<Aug("out", e2)>>)>>
    [] kind = "if-sub-sub" -> <<IfS(c, <<AugO("out", "Sub", e1)>>, <<AugO("out", "Sub", e2)>>)>>
    [] kind = "if-mul-mul" -> <<IfS(c, <<AugO("out", "Mult", e1)>>, <<AugO("out", "Mult", e2)>>)>>
    [] kind = "if-aug-asg" -> <<IfS(c, <<Aug("out", e1)>>, <<Asg("out", e2)>>)>>
    [] kind = "if-asg-aug" -> <<IfS(c, <<Asg("out", e1)>>, <<Aug("out", e2)>>)>>
    [] kind = "if-asg-other" -> <<IfS(c, <<Asg("out", e1)>>, <<Asg("tmp", e2)>>)>>      \* else assigns ANOTHER variable
    [] kind = "elif" -> <<IfS(c, <<Asg("out", e1)>>, <<IfS(Cmp(A, "Gt", B), <<Asg("out", e2)>>, <<Asg("out", K("int:0"))>>)>>)>>
    [] OTHER -> <<>>
Body(kind, init, c, e1, e2) ==
  CASE kind = "if-ret-ret" -> <<IfS(c, <<Ret(e1)>>, <<Ret(e2)>>)>>
    [] kind = "if-ret" -> <<Asg("out", init), IfS(c, <<Ret(e1)>>, <<>>), Ret(O)>>
    [] kind = "ret-expr" -> <<Ret(e1)>>
    [] OTHER -> <<Asg("out", init), Asg("tmp", K("int:0"))>> \o Middle(kind, c, e1, e2) \o <<Ret(O)>>

\* ---- inputs: scalar environments and pairs of them (one array position each)
Envs == { [a |-> x, b |-> y, c |-> z, out |-> 0, tmp |-> 0] : x \in {-1, 2}, y \in {0, 2}, z \in {0, 1} }
Pairs == { <<e1, e2>> \in Envs \X Envs : e1.c # e2.c \/ (e1.a > e1.b) # (e2.a > e2.b) \/ e1.a # e2.a }
PairSeq == SetToSeq(Pairs)
NP == IF Full THEN 10 ELSE 6
AEnv(p) == [a |-> Vc(<<p[1].a, p[2].a>>), b |-> Vc(<<p[1].b, p[2].b>>), c |-> Vc(<<p[1].c, p[2].c>>), out |-> Sc(0), tmp |-> Sc(0)]

\* ---- quirk classes
RECURSIVE Has(_, _)
Has(P(_), x) == IF x.k = "prim" \/ x.k = "err" THEN FALSE
                ELSE IF x.k = "list" THEN \E i \in 1..Len(x.items) : Has(P, x.items[i])
                ELSE P(x) \/ \E fk \in DOMAIN x.f : Has(P, x.f[fk])
IsQ2(n) == n.t = "If" /\ n.f.orelse.items = <<>> /\ n.f.body.items[1].t = "AugAssign"
IsQ3(n) == n.t = "If" /\ n.f.orelse.items # <<>> /\ n.f.body.items[1].t \in {"Assign", "AugAssign"}
             /\ n.f.orelse.items[1].t \in {"Assign", "AugAssign"}
             /\ ( n.f.body.items[1].t # n.f.orelse.items[1].t
                  \/ (n.f.body.items[1].t = "Assign" /\ n.f.orelse.items[1].t = "Assign"
                        /\ n.f.body.items[1].f.targets # n.f.orelse.items[1].f.targets) )
IsQ4(n) == n.t = "Call" /\ n.f.func.t = "Name" /\ IdOf(n.f.func) \in Reducers /\ Len(n.f.args.items) = 1
Classes(body) == (IF Has(IsQ2, List(body)) THEN {"Q2-elseless-augassign"} ELSE {})
                 \cup (IF Has(IsQ3, List(body)) THEN {"Q3-else-of-other-kind-or-target"} ELSE {})
                 \cup (IF Has(IsQ4, List(body)) THEN {"Q4-reducer-of-one-iterable"} ELSE {})

Compute(body) ==
  LET v == Visit(List(body))
      ok == ~HasErr(v)
      runs == IF ~ok THEN <<>> ELSE
              [i \in 1..NP |-> LET p == PairSeq[i]
                                   ar == ARun(v.items, AEnv(p)) IN
                               [sc |-> <<SRun(body, p[1]), SRun(body, p[2])>>,
                                ar |-> Rows(ar), aerr |-> IsErr(ar),
                                inp |-> <<<<p[1].a, p[1].b, p[1].c>>, <<p[2].a, p[2].b, p[2].c>>>>]]
  IN [visit |-> IF ok THEN "ok" ELSE "err",
      runs |-> runs,
      faithful |-> \A i \in 1..Len(runs) : runs[i].aerr \/ runs[i].ar = runs[i].sc,
      cls |-> Classes(body)]

Init == stage = 0 /\ pick = <<>> /\ prog = <<>> /\ res = [visit |-> "none", runs |-> <<>>, faithful |-> TRUE, cls |-> {}]
Choose == /\ stage = 0
          /\ \E k \in Kinds, c \in Conds, i \in Inits : pick' = <<k, c, i>>
          /\ stage' = 1 /\ UNCHANGED <<prog, res>>
Build == /\ stage = 1
         /\ \E e1 \in Exprs, e2 \in (IF pick[1] \in {"asg", "aug", "if-asg", "if-aug", "if-ret", "ret-expr"} THEN {A} ELSE IF pick[1] = "elif" THEN ExprsSmall ELSE Exprs) :
              /\ prog' = Body(pick[1], pick[3], pick[2], e1, e2)
              /\ res' = Compute(prog')
         /\ stage' = 2 /\ UNCHANGED pick
Next == Choose \/ Build
Spec == Init /\ [][Next]_vars

\* every silent mistranslation is explained by a documented quirk of the rewrite
UnfaithfulOnlyByKnownQuirks == (stage = 2 /\ ~res.faithful) => res.cls # {}
\* a program without any quirk construct that is translated is translated faithfully (same statement)
\* and the rewrite never rejects a program of the style except for the documented reasons
=============================================================================
