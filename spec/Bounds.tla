------------------------------- MODULE Bounds -------------------------------
(* C16: every computed value is finite, every default target (tax, contribution, transfer)  *)
(* is non-negative, and amounts stay within the caps that the parameters encode.  A cap is a *)
(* relation  lhs <= factor * rhs + slack  between two observed columns of the same run (or a  *)
(* column and a parameter of the date), evaluated per row on exact decimals.                  *)
EXTENDS Dec
Finite(v) == IsFinite(v)
NonNegative(v) == IsFinite(v) /\ LE(Neg(Tol1e9), v)
CapOK(lhs, factor, rhs, slack) == IsFinite(lhs) /\ IsFinite(rhs) /\ LE(lhs, Add(Mul(factor, rhs), slack))
=============================================================================
