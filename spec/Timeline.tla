------------------------------ MODULE Timeline ------------------------------
(* Law over time.  The raw, dated entries of the parameter files (RAW_FILE, exported from  *)
(* the YAML sources without interpretation: dates -> ordinals, leaves -> tagged strings,  *)
(* nested values -> <<path, leaf>> lists) and the registry of dated rule implementations   *)
(* are the constants; the environment of a day is a FUNCTION of the day:                   *)
(*   Resolve(g, p, day)  the parameter value in force (latest entry <= day, `previous`     *)
(*                       chains, cross-file deviations, scalars, inf)                      *)
(*   Expected(g, day)    all parameters of a group incl. prior-date look-ups               *)
(*   ExpectedRounding    rounding specification in force (base, direction, offset)         *)
(*   Active(day)         the implementation of every column name (inclusive bounds)        *)
EXTENDS Sequences, Naturals, Integers, FiniteSets, TLC, Json, IOUtils, SequencesExt, FiniteSetsExt, Calendar

SeqToSet(s) == {s[i] : i \in 1..Len(s)}
GroupNames(R) == {R.groups[i].name : i \in 1..Len(R.groups)}
G(R, g) == LET i == CHOOSE i \in 1..Len(R.groups) : R.groups[i].name = g IN R.groups[i]
ParamNames(R, g) == {G(R, g).params[i].name : i \in 1..Len(G(R, g).params)}
P(R, g, p) == LET ps == G(R, g).params i == CHOOSE i \in 1..Len(ps) : ps[i].name = p IN ps[i]

\* nested values as sets of [p |-> path, v |-> leaf]
FlatSet(fl, prefix) == {[p |-> prefix \o fl[i][1], v |-> fl[i][2]] : i \in 1..Len(fl)}
Put(val, path, leaf) == {e \in val : ~IsPrefix(path, e.p)} \cup {[p |-> path, v |-> leaf]}
RECURSIVE PutAll(_, _, _, _)
PutAll(val, prefix, fl, i) == IF i > Len(fl) THEN val ELSE PutAll(Put(val, prefix \o fl[i][1], fl[i][2]), prefix, fl, i + 1)
Canon(leaf) == IF leaf = "sinf" THEN "finf" ELSE leaf
Absent == [kind |-> "absent"]
HasDot(s) == \E i \in 1..Len(s) : SubSeq(s, i, i) = "."
SplitDot(s) == LET i == CHOOSE i \in 1..Len(s) : SubSeq(s, i, i) = "." IN <<SubSeq(s, 1, i - 1), SubSeq(s, i + 1, Len(s))>>

RECURSIVE Resolve(_, _, _, _)
RECURSIVE Overlay(_, _, _)
Overlay(val, vals, i) == IF i > Len(vals) THEN val ELSE Overlay(PutAll(val, <<vals[i].key>>, vals[i].flat, 1), vals, i + 1)
Resolve(R, g, p, day) ==
  IF g \notin GroupNames(R) \/ p \notin ParamNames(R, g) THEN Absent ELSE
  LET pr == P(R, g, p)
      es == pr.entries
      past == {i \in 1..Len(es) : es[i].day <= day}
  IN IF Len(es) = 0 THEN Absent ELSE
     IF past = {} THEN
        LET fut == es[1] IN
        IF fut.dev # "" /\ HasDot(fut.dev)
        THEN LET gp == SplitDot(fut.dev) IN Resolve(R, gp[1], gp[2], day)
        ELSE Absent
     ELSE LET e == es[Max(past)] IN
        IF e.scalar # "" THEN [kind |-> "scalar", v |-> Canon(e.scalar)]
        ELSE LET base == IF e.dev = "previous" THEN Resolve(R, g, p, e.day - 1)
                         ELSE IF e.dev # "" /\ HasDot(e.dev) THEN LET gp == SplitDot(e.dev) IN Resolve(R, gp[1], gp[2], day)
                         ELSE [kind |-> "dict", val |-> UNION {FlatSet(pr.trans[j].flat, <<pr.trans[j].key>>) : j \in 1..Len(pr.trans)}]
             IN IF base.kind # "dict" THEN [kind |-> "error"] ELSE [kind |-> "dict", val |-> Overlay(base.val, e.vals, 1)]

HasPast(R, g, p, day) == \E i \in 1..Len(P(R, g, p).entries) : P(R, g, p).entries[i].day <= day
Expected(R, g, day) ==
  LET base == {<<p, Resolve(R, g, p, day)>> : p \in ParamNames(R, g)}
      present == {x \in base : x[2].kind # "absent"}
      \* as implemented: prior-date look-ups are only attached to parameters that have an entry of
      \* their own on or before the day (not to values borrowed from another file through a future
      \* cross-file deviation); no real parameter file combines the two
      extra == UNION { LET pr == P(R, g, x[1]) IN
                 IF ~HasPast(R, g, x[1], day) THEN {} ELSE
                 IF pr.add = "vorjahr" THEN LET r == Resolve(R, g, x[1], MinusOneYear(day)) IN IF r.kind = "absent" THEN {} ELSE {<<x[1] \o "_vorjahr", r>>}
                 ELSE IF pr.add = "jahresanfang" THEN LET r == Resolve(R, g, x[1], JanFirst(day)) IN IF r.kind = "absent" THEN {} ELSE {<<x[1] \o "_jahresanfang", r>>}
                 ELSE {} : x \in present }
  IN present \cup extra

\* rounding: latest entry <= day of each rounded function, with ALL its fields (base, direction, offset)
ExpectedRounding(R, g, day) ==
  { <<G(R, g).rounding[i].name,
      FlatSet(LET es == G(R, g).rounding[i].entries past == {j \in 1..Len(es) : es[j].day <= day} IN es[Max(past)].flat, <<>>)>> :
     i \in {i \in 1..Len(G(R, g).rounding) : \E j \in 1..Len(G(R, g).rounding[i].entries) : G(R, g).rounding[i].entries[j].day <= day} }

\* ---- dated rule implementations
\* R.impls: sequence of [key, fn, start, end, dated]
ActiveSet(Impls, day) == {i \in 1..Len(Impls) : ~Impls[i].dated \/ (Impls[i].start <= day /\ day <= Impls[i].end)}
Active(Impls, day) == {<<Impls[i].key, Impls[i].fn>> : i \in ActiveSet(Impls, day)}
\* registration discipline: implementations of one column name never overlap in time
NoOverlap(Impls) == \A i, j \in 1..Len(Impls) :
               (i < j /\ Impls[i].key = Impls[j].key /\ Impls[i].dated /\ Impls[j].dated /\ Impls[i].fn # Impls[j].fn)
               => (Impls[i].end < Impls[j].start \/ Impls[j].end < Impls[i].start)
\* at most one implementation per name on every day follows from NoOverlap; checked on the boundaries too
UniquePerName(Impls, day) == \A i, j \in ActiveSet(Impls, day) : Impls[i].key = Impls[j].key => Impls[i].fn = Impls[j].fn

\* ---- change days: the environment (without its date stamp) can only change on these
EntryDays(R) == UNION {UNION {{G(R, g).params[i].entries[j].day : j \in 1..Len(G(R, g).params[i].entries)} : i \in 1..Len(G(R, g).params)} : g \in GroupNames(R)}
             \cup UNION {UNION {{G(R, g).rounding[i].entries[j].day : j \in 1..Len(G(R, g).rounding[i].entries)} : i \in 1..Len(G(R, g).rounding)} : g \in GroupNames(R)}
ImplDays(Impls) == {Impls[i].start : i \in {k \in 1..Len(Impls) : Impls[k].dated}} \cup {Impls[i].end + 1 : i \in {k \in 1..Len(Impls) : Impls[k].dated}}
=============================================================================
