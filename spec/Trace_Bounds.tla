----------------------------- MODULE Trace_Bounds -----------------------------
(* Code -> spec for C16.  Events (values are indices into an exact value pool):               *)
(*  out [node, target (is it a default target?), vals]      Finite, and NonNegative if target  *)
(*  cap [name, lhs, factor, rhs, slack]                     lhs[i] <= factor * rhs[i] + slack   *)
EXTENDS Bounds, TLC, Json, IOUtils
T == JsonDeserialize(IOEnv.TRACE_FILE)
Pool == T.pool
Ev == T.events
OutFile == IOEnv.OUT_FILE
VARIABLES l, bad
vars == <<l, bad>>
V(i) == Pool[i].v
Numeric(i) == Pool[i].t \in {"f", "i", "b"}
Verdict(e) ==
  IF e.k = "out" THEN
     (IF \E i \in 1..Len(e.vals) : Numeric(e.vals[i]) /\ ~Finite(V(e.vals[i])) THEN {"non-finite"} ELSE {})
     \cup (IF e.target /\ \E i \in 1..Len(e.vals) : Numeric(e.vals[i]) /\ Finite(V(e.vals[i])) /\ ~NonNegative(V(e.vals[i])) THEN {"negative"} ELSE {})
  ELSE IF \E i \in 1..Len(e.lhs) : ~CapOK(V(e.lhs[i]), e.factor, V(e.rhs[i]), e.slack) THEN {"cap"} ELSE {}
Init == l = 1 /\ bad = {}
Step == l <= Len(Ev) /\ bad' = bad \cup {[e |-> l, c |-> c] : c \in Verdict(Ev[l])} /\ l' = l + 1
Spec == Init /\ [][Step]_vars
Done == (l = Len(Ev) + 1) => JsonSerialize(OutFile, [bad |-> bad, n |-> Len(Ev)])
Consumed == TLCGet("stats").diameter - 1 = Len(Ev)
=============================================================================
