------------------------------ MODULE Trace_Vec ------------------------------
(* Code -> spec for C09 on the real rule base.  Events (TRACE_FILE):                         *)
(*  rewrite [name, orig, new, err]   the transformer's output AST for rule `name` must equal *)
(*                                   Visit(orig) (an error where Visit gives an error)        *)
(*  values  [name, scalar, array, aerr]  the array form evaluated on arrays must return, in   *)
(*                                   every position, what the original returns for that row,   *)
(*                                   or raise (aerr # "")                                       *)
(*  purity  [name, before, after]    digests of the rule's module namespace / registry         *)
(*                                   before and after make_vectorizable must be equal           *)
EXTENDS Vec, Json, IOUtils
Ev == JsonDeserialize(IOEnv.TRACE_FILE)
OutFile == IOEnv.OUT_FILE
VARIABLES l, bad
vars == <<l, bad>>
Verdict(e) ==
  CASE e.k = "rewrite" ->
         LET r == Visit(e.orig) IN
         IF e.err # "" THEN (IF HasErr(r) THEN {} ELSE {"rewrite:code-rejects-spec-accepts"})
         ELSE IF HasErr(r) THEN {"rewrite:spec-rejects-code-accepts"}
         ELSE IF r # e.new THEN {"rewrite:differs"} ELSE {}
    [] e.k = "values" ->
         IF e.aerr # "" THEN {}       \* fails loudly: allowed by the property
         ELSE IF Len(e.array) # Len(e.scalar) THEN {"values:shape"}
         ELSE IF \E i \in 1..Len(e.scalar) : e.scalar[i] # e.array[i] THEN {"values:silent-difference"} ELSE {}
    [] e.k = "purity" -> IF e.before = e.after THEN {} ELSE {"purity"}
    [] OTHER -> {"unknown-event"}
Init == l = 1 /\ bad = {}
Step == l <= Len(Ev) /\ bad' = bad \cup {[e |-> l, c |-> c] : c \in Verdict(Ev[l])} /\ l' = l + 1
Spec == Init /\ [][Step]_vars
Done == (l = Len(Ev) + 1) => JsonSerialize(OutFile, [bad |-> bad, n |-> Len(Ev)])
Consumed == TLCGet("stats").diameter - 1 = Len(Ev)
=============================================================================
