CONSTANTS
  Small = FALSE
  WithPid = FALSE
SPECIFICATION Spec
INVARIANT TargetIndependence
INVARIANT OverrideEquivalence
INVARIANT ReformLocality
INVARIANT RoundedExactlyOnce
INVARIANT UnitsByFactor
INVARIANT SpecPrecedence
CHECK_DEADLOCK FALSE
