-------------------------------- MODULE Round --------------------------------
(* Statutory rounding: the rounded value is the unrounded value x moved onto the grid       *)
(* {k * base} in the statutory direction, plus the offset:                                   *)
(*   up      : g is the multiple of base with  x <= g < x + base                             *)
(*   down    : g is the multiple of base with  x - base < g <= x                             *)
(*   nearest : |x - g| <= base / 2 (ties either way)                                          *)
(*   rounded = g + offset.                                                                    *)
(* k is a witness supplied with the observation (an integer); TLC checks r - offset = k*base  *)
(* and the position of k*base relative to x.  `slack` absorbs binary floating point only:     *)
(* 1e-9 of a grid step plus 1e-12 of |x|.                                                     *)
EXTENDS Dec
Slack(x, base) == Add(Mul(Tol1e9, base), Mul(Tol1e12, Abs(x)))
IsInteger(k) == k.f = 0
RoundOK(x, r, base, dir, off, k) ==
  LET g == Mul(k, base)
      sl == Slack(x, base) IN
  /\ IsInteger(k) /\ base.s = 1
  /\ Near(Sub(r, off), g, Add(sl, Mul(Tol1e12, Abs(r))))
  \* slack only on the closed side: a quotient a hair beyond an integer may be computed as that integer
  /\ CASE dir = "up"      -> LE(Sub(x, sl), g) /\ LT(g, Add(x, base))
       [] dir = "down"    -> LT(Sub(x, base), g) /\ LE(g, Add(x, sl))
       [] dir = "nearest" -> LE(Mul(FromInt(2), Abs(Sub(x, g))), Add(base, Mul(FromInt(2), sl)))
       [] OTHER -> FALSE
\* theorem (MC_Round): for the exact k the rounded value is idempotent and within one step
WithinOneStep(x, r, base, off) == LT(Abs(Sub(Sub(r, off), x)), Add(base, Slack(x, base)))
=============================================================================
