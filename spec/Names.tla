------------------------------- MODULE Names -------------------------------
(* The algebra of column names: <base>_<time unit>[_<group>]  (GEP 1).  Transcribed from   *)
(* time_conversion.py (regex `(.*_)([ymwd])(_hh|_wthh|…)?`), shared.remove_group_suffix     *)
(* (one removal per grouping, in the order of SUPPORTED_GROUPINGS) and the group-id choice  *)
(* of _create_one_aggregate_by_group_func (the LAST matching grouping wins).                *)
EXTENDS Sequences, Naturals, FiniteSets, FiniteSetsExt
SeqToSet(s) == {s[i] : i \in 1..Len(s)}
Units == {"y", "m", "w", "d"}
Groups == <<"hh", "wthh", "fg", "bg", "eg", "ehe", "sn">>
GroupSet == SeqToSet(Groups)
EndsWith(s, suf) == Len(s) >= Len(suf) /\ SubSeq(s, Len(s) - Len(suf) + 1, Len(s)) = suf
StartsWith(s, pre) == Len(s) >= Len(pre) /\ SubSeq(s, 1, Len(pre)) = pre
DropEnd(s, n) == SubSeq(s, 1, Len(s) - n)
\* the regex alternation tries the groupings in order; at most one can match a given end
GroupSuffixOf(s) == IF \E g \in GroupSet : EndsWith(s, "_" \o g)
                    THEN LET i == CHOOSE i \in 1..Len(Groups) : EndsWith(s, "_" \o Groups[i]) /\ \A j \in 1..(i - 1) : ~EndsWith(s, "_" \o Groups[j]) IN Groups[i]
                    ELSE ""
\* <<base incl. trailing "_", unit, "_group" or "">> or <<>>
ParseTime(s) ==
  LET g == GroupSuffixOf(s)
      withG == IF g = "" THEN <<>> ELSE
                 LET core == DropEnd(s, Len(g) + 1) IN
                 IF Len(core) >= 2 /\ \E u \in Units : EndsWith(core, "_" \o u)
                 THEN LET u == CHOOSE u \in Units : EndsWith(core, "_" \o u) IN <<DropEnd(core, 1), u, "_" \o g>>
                 ELSE <<>>
      noG == IF Len(s) >= 2 /\ \E u \in Units : EndsWith(s, "_" \o u)
             THEN LET u == CHOOSE u \in Units : EndsWith(s, "_" \o u) IN <<DropEnd(s, 1), u, "">>
             ELSE <<>>
  IN IF withG # <<>> THEN withG ELSE noG
RECURSIVE RemoveGroupSuffixFrom(_, _)
RemoveGroupSuffixFrom(s, i) == IF i > Len(Groups) THEN s
   ELSE RemoveGroupSuffixFrom(IF EndsWith(s, "_" \o Groups[i]) THEN DropEnd(s, Len(Groups[i]) + 1) ELSE s, i + 1)
RemoveGroupSuffix(s) == RemoveGroupSuffixFrom(s, 1)
HasGroupSuffix(s) == \E g \in GroupSet : EndsWith(s, "_" \o g)
GroupIdOf(s) == LET idx == {i \in 1..Len(Groups) : EndsWith(s, "_" \o Groups[i])} IN Groups[Max(idx)] \o "_id"
\* two names denote the same flow in different time units
SameFlow(a, b) == LET p == ParseTime(a) q == ParseTime(b) IN
                  p # <<>> /\ q # <<>> /\ p[1] = q[1] /\ p[3] = q[3] /\ p[2] # q[2]
=============================================================================
