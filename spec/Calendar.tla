------------------------------ MODULE Calendar ------------------------------
(* Proleptic Gregorian calendar on day ordinals (1 = 0001-01-01, as Python's toordinal). *)
EXTENDS Naturals, Integers
IsLeap(y) == (y % 4 = 0 /\ y % 100 # 0) \/ y % 400 = 0
DaysBeforeYear(y) == LET z == y - 1 IN z * 365 + z \div 4 - z \div 100 + z \div 400
\* year of an ordinal: estimate, then correct (no search over a year range)
YearOf(d) == LET g == (d * 400) \div 146097 + 1 IN
             IF DaysBeforeYear(g) >= d THEN (IF DaysBeforeYear(g - 1) >= d THEN g - 2 ELSE g - 1)
             ELSE IF DaysBeforeYear(g + 1) < d THEN g + 1 ELSE g
JanFirst(d) == DaysBeforeYear(YearOf(d)) + 1
DayOfYear(d) == d - DaysBeforeYear(YearOf(d))
\* same month and day one year earlier; 29 February -> 28 February
MinusOneYear(d) ==
  LET y == YearOf(d) doy == DayOfYear(d) IN
  IF IsLeap(y) THEN (IF doy <= 59 THEN DaysBeforeYear(y - 1) + doy ELSE DaysBeforeYear(y - 1) + doy - 1)
  ELSE IF IsLeap(y - 1) THEN (IF doy <= 59 THEN DaysBeforeYear(y - 1) + doy ELSE DaysBeforeYear(y - 1) + doy + 1)
  ELSE DaysBeforeYear(y - 1) + doy
=============================================================================
