------------------------------ MODULE Priority ------------------------------
(* The priority rules between the means-tested benefits (C17), for one household that        *)
(* consists of needs units (Bedarfsgemeinschaften) b.  Per unit: assessed need N, income E,  *)
(* Wohngeld entitlement W, Kinderzuschlag entitlement K, ALG II / Buergergeld before the      *)
(* priority check V.  Household facts: allr (all adults are pensioners), nr (number of        *)
(* pensioners).  Transcribed from benefit_checks.py, arbeitsl_geld_2_m_bg, kinderzuschl_m_bg, *)
(* wthh_id and wohngeld_m_wthh.  Amounts are small naturals (only order relations matter).    *)
EXTENDS Naturals, FiniteSets, Sequences
WohngeldVorrang(u) == u.E + u.W >= u.N
KizVorrang(u) == u.E + u.K >= u.N
WohngeldKizVorrang(u) == u.E + u.W + u.K >= u.N
Alg2(u, allr) == IF WohngeldVorrang(u) \/ KizVorrang(u) \/ WohngeldKizVorrang(u) \/ allr THEN 0 ELSE u.V
Kiz(u, nr) == IF (~KizVorrang(u) /\ ~WohngeldKizVorrang(u)) \/ nr > 0 THEN 0 ELSE u.K
\* Wohngeld part-household of the unit: 1 = the units for which Wohngeld has priority
Part(u) == IF WohngeldVorrang(u) \/ WohngeldKizVorrang(u) THEN 1 ELSE 0
\* entitlement of a part-household = sum of the entitlements of its units (all positive amounts matter only as > 0)
PartEntitlement(us, part) == LET S == {i \in 1..Len(us) : Part(us[i]) = part} IN
                             IF \E i \in S : us[i].W > 0 THEN 1 ELSE 0
Wohngeld(us, i, allr) == IF ~allr /\ (\E j \in 1..Len(us) : Part(us[j]) = Part(us[i]) /\ (WohngeldVorrang(us[j]) \/ WohngeldKizVorrang(us[j])))
                         THEN PartEntitlement(us, Part(us[i])) ELSE 0
\* ---- what C17 asserts
NoAlg2WithWohngeldOrKiz(us, allr, nr) ==
  \A i \in 1..Len(us) : Alg2(us[i], allr) > 0 => (Wohngeld(us, i, allr) = 0 /\ Kiz(us[i], nr) = 0)
KizOnlyIfNeedCovered(us, nr) ==
  \A i \in 1..Len(us) : Kiz(us[i], nr) > 0 => (us[i].E + us[i].K >= us[i].N \/ us[i].E + us[i].W + us[i].K >= us[i].N)
\* Grundsicherung im Alter is only paid when all adults are pensioners; then none of the three others is
GrundsExcludes(us, allr, nr, g) ==
  g > 0 => (allr /\ \A i \in 1..Len(us) : Alg2(us[i], allr) = 0 /\ Wohngeld(us, i, allr) = 0)
=============================================================================
