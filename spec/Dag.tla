-------------------------------- MODULE Dag --------------------------------
(* Symbolic evaluation of the pruned dependency graph.  A value is a TERM; semantically     *)
(* equal flows are syntactically equal because terms are kept in a normal form:             *)
(*   - a data column in time unit u is the yearly atom scaled by 1/F(u)                      *)
(*   - nested conversions compose to one rational factor, the identity factor is dropped     *)
(*   - a factor is pulled out of a group SUM (conversion commutes with summation)            *)
(* A rule node is opaque: <<"rule", name, version, {<<arg, term>>}>> wrapped in <<"round",…>>*)
(* iff the rule carries a rounding key and rounding is on.  Derived nodes are never wrapped. *)
EXTENDS Derive, Integers
Fac(u) == CASE u = "y" -> <<1, 1>> [] u = "m" -> <<12, 1>> [] u = "w" -> <<1461, 28>> [] u = "d" -> <<1461, 4>>
RECURSIVE Gcd(_, _)
Gcd(a, b) == IF b = 0 THEN a ELSE Gcd(b, a % b)
NormQ(q) == LET g == Gcd(q[1], q[2]) IN <<q[1] \div g, q[2] \div g>>
MulQ(p, q) == NormQ(<<p[1] * q[1], p[2] * q[2]>>)
InvQ(q) == <<q[2], q[1]>>
\* value in unit `to` = value in unit `from` * F(from) / F(to)   (F = periods per year)
ConvFac(from, to) == MulQ(Fac(from), InvQ(Fac(to)))
Scale(q, t) == IF q = <<1, 1>> THEN t
               ELSE IF t[1] = "scale" THEN (LET q2 == MulQ(q, t[2]) IN IF q2 = <<1, 1>> THEN t[3] ELSE <<"scale", q2, t[3]>>)
               ELSE <<"scale", q, t>>
\* a data column: flows are tied to their yearly atom, everything else is an atom of its own
Atom(c) == LET p == ParseTime(c) IN
           IF p = <<>> THEN <<"data", c>> ELSE Scale(InvQ(Fac(p[2])), <<"data", p[1] \o "y" \o p[3]>>)

RECURSIVE Val(_, _, _, _, _)
\* tab: table of the nodes that are not overridden; dv: data column |-> term; ver: rule |-> version tag
Val(tab, dv, ver, n, d) ==
  IF n \in DOMAIN dv THEN dv[n]
  ELSE IF n \notin DOMAIN tab THEN <<"missing", n>>
  ELSE IF d = 0 THEN <<"cycle", n>>
  ELSE LET e == tab[n] IN
       IF e.kind = "time" THEN Scale(ConvFac(e.conv[1], e.conv[2]), Val(tab, dv, ver, e.src, d - 1))
       ELSE IF e.kind = "grp_sum" THEN
            LET t == Val(tab, dv, ver, e.src, d - 1) IN
            IF t[1] = "scale" THEN Scale(t[2], <<"grp_sum", GroupIdOf(n), t[3]>>) ELSE <<"grp_sum", GroupIdOf(n), t>>
       ELSE IF e.kind = "grp_count" THEN <<"grp_count", GroupIdOf(n)>>
       ELSE IF e.src # "" THEN <<e.kind, IF e.kind \in {"pid_sum"} THEN "p" ELSE GroupIdOf(n), Val(tab, dv, ver, e.src, d - 1)>>
       ELSE LET raw == <<"rule", n, ver[n], {<<a, Val(tab, dv, ver, a, d - 1)>> : a \in e.args}>> IN
            IF e.round # "" THEN <<"round", raw>> ELSE raw
RECURSIVE HasBad(_)
HasBad(t) == IF t[1] \in {"missing", "cycle"} THEN TRUE
             ELSE IF t[1] \in {"data", "grp_count"} THEN FALSE
             ELSE IF t[1] = "scale" THEN HasBad(t[3])
             ELSE IF t[1] = "round" THEN HasBad(t[2])
             ELSE IF t[1] = "rule" THEN \E x \in t[4] : HasBad(x[2])
             ELSE HasBad(t[3])
\* nodes a term mentions as rules (its rule ancestors)
RECURSIVE RulesIn(_)
RulesIn(t) == IF t[1] \in {"missing", "cycle", "data", "grp_count"} THEN {}
              ELSE IF t[1] = "scale" THEN RulesIn(t[3])
              ELSE IF t[1] = "round" THEN RulesIn(t[2])
              ELSE IF t[1] = "rule" THEN {t[2]} \cup UNION {RulesIn(x[2]) : x \in t[4]}
              ELSE RulesIn(t[3])
\* how often the rounding wrapper sits directly on rule n inside a term, and on anything else
RECURSIVE RoundOK(_, _)
RoundOK(t, rounded) ==   \* every "round" wraps a rule in `rounded`, every such rule is wrapped
  IF t[1] \in {"missing", "cycle", "data", "grp_count"} THEN TRUE
  ELSE IF t[1] = "scale" THEN RoundOK(t[3], rounded)
  ELSE IF t[1] = "round" THEN t[2][1] = "rule" /\ t[2][2] \in rounded /\ \A x \in t[2][4] : RoundOK(x[2], rounded)
  ELSE IF t[1] = "rule" THEN t[2] \notin rounded /\ \A x \in t[4] : RoundOK(x[2], rounded)
  ELSE RoundOK(t[3], rounded)
=============================================================================
