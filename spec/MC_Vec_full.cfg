CONSTANT Full = TRUE
SPECIFICATION Spec
INVARIANT UnfaithfulOnlyByKnownQuirks
CHECK_DEADLOCK FALSE
