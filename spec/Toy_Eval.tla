------------------------------ MODULE Toy_Eval ------------------------------
(* Spec -> code for the compile pipeline: for configurations enumerated by MC_Dag (TRACE_FILE: *)
(* sequence of [fn = <<[name, args, round]>>, data = <<names>>, ugrp = <<[name, aggr, src]>>])  *)
(* TLC computes what the specification predicts for every target of the pool: whether the      *)
(* configuration is well-formed, whether the target is computable, and its symbolic VALUE       *)
(* (Dag.tla term).  The harness materialises the configuration as real Python rules and data,   *)
(* runs compute_taxes_and_transfers and compares the number with the term evaluated on the      *)
(* same data.                                                                                    *)
EXTENDS Dag, TLC, Json, IOUtils
Cases == JsonDeserialize(IOEnv.TRACE_FILE)
OutFile == IOEnv.OUT_FILE
VARIABLES l, out
vars == <<l, out>>
Depth == 7
TargetPool == {"a_m", "a_y", "a_w", "a_d", "a_m_hh", "a_y_hh", "b_hh", "c", "e_y", "e_m", "e_m_hh", "c_hh"}
Map(seq, f(_)) == [n \in {seq[i].name : i \in 1..Len(seq)} |-> LET i == CHOOSE i \in 1..Len(seq) : seq[i].name = n IN f(seq[i])]
Cfg(c) == [fn |-> Map(c.fn, LAMBDA x : [args |-> SeqToSet(x.args), round |-> x.round]), data |-> SeqToSet(c.data),
           ugrp |-> Map(c.ugrp, LAMBDA x : [aggr |-> x.aggr, src |-> x.src]), bgrp |-> Empty, bpid |-> Empty, upid |-> Empty]
ValidConfig(c) ==
  /\ \A d \in c.data : \A r \in DOMAIN c.fn : ~SameFlow(d, r)
  /\ \A r1 \in DOMAIN c.fn : \A r2 \in DOMAIN c.fn : ~SameFlow(r1, r2)
  /\ \A d1 \in c.data : \A d2 \in c.data : ~SameFlow(d1, d2)
  /\ \A n \in DOMAIN c.ugrp : ParseTime(n) # <<>> => c.ugrp[n].aggr = "sum"
\* here data columns are plain atoms: the harness gives every data column its own numbers
BaseData(c) == [x \in c.data \cup {"hh_id", "p_id"} |-> <<"data", x>>]
Judge(raw) ==
  LET c == Cfg(raw)
      dv == BaseData(c)
      ver == [n \in DOMAIN c.fn |-> 0] IN
  [id |-> raw.id, valid |-> ValidConfig(c),
   terms |-> [t \in TargetPool |->
      LET tab == Table(c, {t})
          live == [n \in DOMAIN tab \ DOMAIN dv |-> tab[n]]
          v == Val(live, dv, ver, t, Depth) IN
      IF HasBad(v) THEN <<"bad">> ELSE v]]
Init == l = 1 /\ out = <<>>
Step == l <= Len(Cases) /\ out' = Append(out, Judge(Cases[l])) /\ l' = l + 1
Spec == Init /\ [][Step]_vars
Done == (l = Len(Cases) + 1) => JsonSerialize(OutFile, out)
Consumed == TLCGet("stats").diameter - 1 = Len(Cases)
=============================================================================
