------------------------------- MODULE Levels -------------------------------
(* Constancy levels of columns (C15).  The derived units nest on valid populations            *)
(* (Households.tla Nesting): sn within ehe; eg within fg; bg within fg within hh; bg within    *)
(* wthh within hh.  A column is CONSTANT WITHIN grouping g if all members of a g-unit share    *)
(* its value.  Const(n) is a set of groupings within which node n is certainly constant:       *)
(*   data column with suffix _g          : every grouping nested in g                           *)
(*   other data column                   : none (individual level)                              *)
(*   group aggregation by g / the id of g : every grouping nested in g                           *)
(*   derived time-unit node              : as its source                                        *)
(*   rule node                           : the groupings common to all its arguments            *)
(*                                         (parameters are constants: every grouping)           *)
(* Sufficient condition for C15: the group suffix of a node is in Const(node).  Nodes that fail  *)
(* it are CANDIDATES; a violation needs a dynamic witness (Trace_Levels).                        *)
EXTENDS Names, TLC
AllG == GroupSet
Below(g) == CASE g = "hh" -> {"hh", "wthh", "fg", "bg", "eg"}
              [] g = "wthh" -> {"wthh", "bg"}
              [] g = "fg" -> {"fg", "bg", "eg"}
              [] g = "bg" -> {"bg"}
              [] g = "eg" -> {"eg"}
              [] g = "ehe" -> {"ehe", "sn"}
              [] g = "sn" -> {"sn"}
SuffixGroup(n) == LET idx == {i \in 1..Len(Groups) : EndsWith(n, "_" \o Groups[i])} IN IF idx = {} THEN "" ELSE Groups[Max(idx)]
IdGroup(n) == IF \E g \in AllG : n = g \o "_id" THEN CHOOSE g \in AllG : n = g \o "_id" ELSE ""
\* D: sequence of [n, a (args), kind]; data: set of data column names
DataConst(c) == IF IdGroup(c) # "" THEN Below(IdGroup(c)) ELSE IF SuffixGroup(c) # "" THEN Below(SuffixGroup(c)) ELSE {}
StepConst(D, data, cur) ==
  [i \in 1..Len(D) |->
     LET e == D[i]
         argc(a) == IF EndsWith(a, "_params") THEN AllG
                    ELSE IF a \in data THEN DataConst(a)
                    ELSE IF \E j \in 1..Len(D) : D[j].n = a THEN cur[CHOOSE j \in 1..Len(D) : D[j].n = a]
                    ELSE {} IN
     IF e.kind = "grouping" THEN Below(IdGroup(e.n))
     ELSE IF SubSeq(e.kind, 1, 4) = "grp_" THEN Below(SuffixGroup(e.n))
     ELSE IF SubSeq(e.kind, 1, 4) = "pid_" THEN {}
     ELSE IF Len(e.a) = 0 THEN AllG
     ELSE LET S == {argc(e.a[k]) : k \in 1..Len(e.a)} IN {g \in AllG : \A s \in S : g \in s}]
RECURSIVE Fix(_, _, _, _)
Fix(D, data, cur, k) == LET nxt == StepConst(D, data, cur) IN IF nxt = cur \/ k = 0 THEN cur ELSE Fix(D, data, nxt, k - 1)
ConstOf(D, data) == Fix(D, data, [i \in 1..Len(D) |-> AllG], 60)
Candidates(D, data) == LET c == ConstOf(D, data) IN
  {D[i].n : i \in {j \in 1..Len(D) : SuffixGroup(D[j].n) # "" /\ SuffixGroup(D[j].n) \notin c[j]}}
=============================================================================
