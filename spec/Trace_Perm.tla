----------------------------- MODULE Trace_Perm -----------------------------
(* C01: results do not depend on row order or index labels.                               *)
(* The specification of a simulation is a function of the SET of person records keyed by  *)
(* p_id (Households.tla, Aggregate.tla, Rows.tla); row order does not exist in it.  Hence  *)
(* any two runs of the implementation on the same set of records must agree per person.   *)
(* Trace: the first event of a trace id fixes the base table; every later event (same      *)
(* records, other row order / index labels) must satisfy, per person and column,           *)
(*   value columns      : equal (bit-identical pool index, or numerically within 1e-9      *)
(*                        relative, because group sums may legally associate differently)  *)
(*   derived id columns : the same partition of persons (labels may differ)                *)
(* Cells are indices into a pool of exact values (Dec.tla).                                *)
EXTENDS Dec, TLC, Json, IOUtils, FiniteSets
T == JsonDeserialize(IOEnv.TRACE_FILE)
Pool == T.pool
Ev == T.events
OutFile == IOEnv.OUT_FILE
IdCols == {"wthh_id", "fg_id", "bg_id", "eg_id", "ehe_id", "sn_id"}
VARIABLES l, base, bad, ncmp
vars == <<l, base, bad, ncmp>>

Numeric(t) == t \in {"f", "i", "b"}
CellOK(a, b) ==
  \/ a = b
  \/ /\ Numeric(Pool[a].t) /\ Numeric(Pool[b].t)
     /\ IsFinite(Pool[a].v) /\ IsFinite(Pool[b].v)
     /\ Close(Pool[a].v, Pool[b].v, Tol1e9)

Rows(e) == 1..Len(e.pids)
RowOf(e, p) == CHOOSE r \in Rows(e) : e.pids[r] = p
SamePids(e, b) == {e.pids[r] : r \in Rows(e)} = {b.pids[r] : r \in Rows(b)} /\ Len(e.pids) = Len(b.pids)
                  /\ Len(e.cells) = Len(e.pids) /\ \A r \in Rows(e) : Len(e.cells[r]) = Len(b.cols)

BadCols(e, b) ==
  LET rb == [r \in Rows(e) |-> RowOf(b, e.pids[r])] IN
  {c \in 1..Len(b.cols) :
     IF b.cols[c] \in IdCols
     THEN \E r1, r2 \in Rows(e) : (e.cells[r1][c] = e.cells[r2][c]) # (b.cells[rb[r1]][c] = b.cells[rb[r2]][c])
     ELSE \E r \in Rows(e) : ~CellOK(e.cells[r][c], b.cells[rb[r]][c])}

Init == l = 1 /\ base = [tid |-> -1] /\ bad = {} /\ ncmp = 0
Step ==
  /\ l <= Len(Ev)
  /\ LET e == Ev[l] IN
     IF e.tid # base.tid
     THEN base' = e /\ bad' = bad /\ ncmp' = ncmp
     ELSE /\ base' = base
          /\ ncmp' = ncmp + 1
          /\ IF ~SamePids(e, base)
             THEN bad' = bad \cup {[tid |-> e.tid, run |-> e.run, col |-> "*", kind |-> "shape"]}
             ELSE bad' = bad \cup {[tid |-> e.tid, run |-> e.run, col |-> base.cols[c],
                                     kind |-> IF base.cols[c] \in IdCols THEN "partition" ELSE "value"] : c \in BadCols(e, base)}
  /\ l' = l + 1
Spec == Init /\ [][Step]_vars
Done == (l = Len(Ev) + 1) => JsonSerialize(OutFile, [bad |-> bad, n |-> Len(Ev), compared |-> ncmp])
Consumed == TLCGet("stats").diameter - 1 = Len(Ev)
=============================================================================
