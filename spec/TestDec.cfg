INIT Init
NEXT Next
