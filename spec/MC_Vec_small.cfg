CONSTANT Full = FALSE
SPECIFICATION Spec
INVARIANT UnfaithfulOnlyByKnownQuirks
CHECK_DEADLOCK FALSE
