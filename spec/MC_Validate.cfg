CONSTANT MaxFaults = 2
SPECIFICATION Spec
INVARIANT FaultBreaksValid
INVARIANT BenignKeepsValid
CHECK_DEADLOCK FALSE
