SPECIFICATION Spec
INVARIANT Done
POSTCONDITION Consumed
CHECK_DEADLOCK FALSE
