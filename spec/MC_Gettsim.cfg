CONSTANTS
  Dates = {"d1", "d2"}
  Pops = {"p1", "p2"}
  TargetSets = {"T1", "T2"}
  Groups = {"g1"}
  Rules = {"f1"}
  MaxLen = 4
  MaxEnvs = 2
SPECIFICATION Spec
INVARIANT TypeOK
CHECK_DEADLOCK FALSE
