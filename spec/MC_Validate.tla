---------------------------- MODULE MC_Validate ----------------------------
(* Fault enumeration: from every base table, every single fault of the enumerated classes at *)
(* every eligible cell, every pair of faults, and faults combined with benign re-encodings.   *)
(* Theorems (vacuity guards of the fault model): a fault action always leaves ~Valid; benign   *)
(* actions preserve Valid; a second fault never repairs the first.                             *)
EXTENDS Validate, TLC
CONSTANT MaxFaults, OrderSet
VARIABLES t, hist          \* hist: sequence of [f, args] describing what was injected
vars == <<t, hist>>
Row(pid, hh, sp, pa, e1, e2, gv, hv) == [pid |-> pid, hh |-> hh, sp |-> sp, pa |-> pa, e1 |-> e1, e2 |-> e2, gv |-> gv, hv |-> hv]
BaseSeq == <<
  <<Row(10, 0, -1, -1, -1, -1, FALSE, 5)>>,
  <<Row(10, 0, 11, 11, -1, -1, TRUE, 5), Row(11, 0, 10, 10, -1, -1, TRUE, 5)>>,
  <<Row(10, 0, -1, -1, -1, -1, FALSE, 5), Row(12, 0, -1, -1, 10, -1, FALSE, 5)>>,
  <<Row(10, 0, 11, 11, -1, -1, TRUE, 5), Row(11, 0, 10, 10, -1, -1, TRUE, 5), Row(12, 0, -1, -1, 10, 11, FALSE, 5), Row(20, 1, -1, -1, -1, -1, FALSE, 7)>>,
  \* three unrelated adults sharing a flat (no pointers at all: a fault in one row is not noticed through another row's pointer)
  <<Row(10, 0, -1, -1, -1, -1, FALSE, 5), Row(11, 0, -1, -1, -1, -1, FALSE, 5), Row(12, 0, -1, -1, -1, -1, FALSE, 5)>> >>
DCols == {"alter", "bruttolohn_m", "kind"}       \* an int, a float and a bool column
\* Row orders of the four-row base table: Valid does not depend on the order of rows, so every fault must be rejected in
\* every order (members of one household need not be adjacent).  Order 1 is the identity.
Orders == << <<1, 2, 3, 4>>, <<1, 4, 2, 3>>, <<4, 3, 2, 1>>, <<1, 2, 4, 3>>, <<3, 4, 1, 2>>, <<4, 1, 2, 3>> >>
Init == \E b \in 1..Len(BaseSeq), o \in OrderSet :
          /\ (Len(BaseSeq[b]) = 4 \/ o = 1)
          /\ t = [bi |-> b, ord |-> o, rows |-> [k \in 1..Len(BaseSeq[b]) |-> BaseSeq[b][Orders[o][k]]], nopid |-> FALSE, dropped |-> {}, dup |-> {}, dtype |-> [c \in DCols |-> "ok"]]
          /\ hist = <<>>
N == Len(t.rows)
Faults == Cardinality({i \in 1..Len(hist) : hist[i].fault})
SetCell(i, c, v) == [t EXCEPT !.rows[i][c] = v]
Log(f, a, isFault) == hist' = Append(hist, [f |-> f, a |-> a, fault |-> isFault])

DropPid == ~t.nopid /\ t' = [t EXCEPT !.nopid = TRUE] /\ Log("DropPid", <<>>, TRUE)
DuplicatePid == \E i, j \in 1..N : i # j /\ t.rows[j].pid # t.rows[i].pid /\ t' = SetCell(j, "pid", t.rows[i].pid) /\ Log("DuplicatePid", <<i, j>>, TRUE)
DanglingPointer == \E i \in 1..N, c \in PtrCols : 999 \notin Pids(t) /\ t' = SetCell(i, c, 999) /\ Log("DanglingPointer", <<i, c>>, TRUE)
\* "nobody" is exactly -1: any other negative value (a survey's missing code) points to a person that is not in the data
NegativePointer == \E i \in 1..N, c \in PtrCols, v \in {-2} : t.rows[i][c] # v /\ v \notin Pids(t) /\ t' = SetCell(i, c, v) /\ Log("NegativePointer", <<i, c, v>>, TRUE)
SelfPointer == \E i \in 1..N, c \in PtrCols : t.rows[i][c] # t.rows[i].pid /\ t' = SetCell(i, c, t.rows[i].pid) /\ Log("SelfPointer", <<i, c>>, TRUE)
VaryHHInput == \E i \in 1..N : (\E j \in 1..N : j # i /\ t.rows[j].hh = t.rows[i].hh /\ t.rows[j].hv = t.rows[i].hv)
                 /\ \E d \in {1, 3} : t' = SetCell(i, "hv", t.rows[i].hv + d) /\ Log("VaryHHInput", <<i, d>>, TRUE)
ContradictJoint == \E i \in 1..N : (\E j \in 1..N : t.rows[i].sp = t.rows[j].pid /\ t.rows[j].sp = t.rows[i].pid /\ t.rows[j].gv = t.rows[i].gv)
                     /\ t' = SetCell(i, "gv", ~t.rows[i].gv) /\ Log("ContradictJoint", <<i>>, TRUE)
DropRequired == \E c \in Required \ t.dropped : t' = [t EXCEPT !.dropped = @ \cup {c}] /\ Log("DropRequired", <<c>>, TRUE)
DuplicateColumn == \E c \in {"alter", "bruttolohn_m", "hh_id"} \ t.dup : c \notin t.dropped /\ t' = [t EXCEPT !.dup = @ \cup {c}] /\ Log("DuplicateColumn", <<c>>, TRUE)
LossyDtype == \E c \in DCols : t.dtype[c] = "ok" /\ c \notin t.dropped /\
                \E k \in (IF c = "alter" THEN {"int_frac", "int_frac_small", "object"} ELSE IF c = "kind" THEN {"bool_two", "bool_frac", "object"} ELSE {"object"}) :
                   t' = [t EXCEPT !.dtype[c] = k] /\ Log("LossyDtype", <<c, k>>, TRUE)
LosslessDtype == \E c \in DCols : t.dtype[c] = "ok" /\ c \notin t.dropped /\
                \E k \in (IF c = "alter" THEN {"int_as_float"} ELSE IF c = "kind" THEN {"bool_as_int01", "bool_as_float01"} ELSE {"float_as_int", "float_as_float32"}) :
                   t' = [t EXCEPT !.dtype[c] = k] /\ Log("LosslessDtype", <<c, k>>, FALSE)
G == Faults < MaxFaults            \* guard of every fault action (top-level disjuncts so that TLC reports coverage per fault class)
B == Len(hist) - Faults < 1 /\ Len(hist) < MaxFaults + 1
Next == (G /\ DropPid) \/ (G /\ DuplicatePid) \/ (G /\ DanglingPointer) \/ (G /\ NegativePointer) \/ (G /\ SelfPointer) \/ (G /\ VaryHHInput)
        \/ (G /\ ContradictJoint) \/ (G /\ DropRequired) \/ (G /\ DuplicateColumn) \/ (G /\ LossyDtype) \/ (B /\ LosslessDtype)
Spec == Init /\ [][Next]_vars
\* theorems
FaultBreaksValid == Faults >= 1 => ~Valid(t)
BenignKeepsValid == Faults = 0 => Valid(t)
=============================================================================
