CONSTANT MaxLen = 3
SPECIFICATION Spec
INVARIANT WellTypedIsSafe
INVARIANT StorageIndependentOfData
CHECK_DEADLOCK FALSE
