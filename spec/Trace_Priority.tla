---------------------------- MODULE Trace_Priority ----------------------------
(* Code -> spec for C17.  Events:                                                             *)
(*  replay [us, allr, nr, obs]   a state of MC_Priority replayed on the real rules (one person *)
(*         per needs unit, intermediate columns supplied): obs[i] = [alg2, kiz, wg (paid?),     *)
(*         part (wthh label)] must show the pattern the specification computes                  *)
(*  hh     [persons]             one household of a full simulation: persons[i] = [bg, wthh,    *)
(*         alg2, wg, kiz, grunds (paid?), need, eink, kizamt, wgamt (exact decimals)]            *)
(*         must satisfy the exclusivity invariants of C17                                        *)
EXTENDS Priority, Dec, TLC, Json, IOUtils
Ev == JsonDeserialize(IOEnv.TRACE_FILE)
OutFile == IOEnv.OUT_FILE
VARIABLES l, bad
vars == <<l, bad>>
ReplayVerdict(e) ==
  LET us == e.us n == Len(e.us) IN
  (IF \E i \in 1..n : e.obs[i].alg2 # (Alg2(us[i], e.allr) > 0) THEN {"replay:alg2-pattern"} ELSE {})
  \cup (IF \E i \in 1..n : e.obs[i].kiz # (Kiz(us[i], e.nr) > 0) THEN {"replay:kinderzuschlag-pattern"} ELSE {})
  \cup (IF \E i \in 1..n : e.obs[i].wg # (~e.allr /\ \E j \in 1..n : Part(us[j]) = Part(us[i]) /\ (WohngeldVorrang(us[j]) \/ WohngeldKizVorrang(us[j])))
        THEN {"replay:wohngeld-pattern"} ELSE {})
  \cup (IF \E i, j \in 1..n : (e.obs[i].part = e.obs[j].part) # (Part(us[i]) = Part(us[j])) THEN {"replay:part-household"} ELSE {})
HhVerdict(e) ==
  LET P == e.persons n == Len(e.persons) IN
  (IF \E i \in 1..n : P[i].alg2 /\ P[i].wg THEN {"alg2-with-wohngeld"} ELSE {})
  \cup (IF \E i \in 1..n : P[i].alg2 /\ P[i].kiz THEN {"alg2-with-kinderzuschlag"} ELSE {})
  \cup (IF \E i \in 1..n : P[i].grunds /\ (P[i].alg2 \/ P[i].wg \/ P[i].kiz) THEN {"grundsicherung-with-other"} ELSE {})
  \cup (IF \E i, j \in 1..n : P[i].bg = P[j].bg /\ P[i].wthh # P[j].wthh THEN {"needs-unit-split-across-part-households"} ELSE {})
  \cup (IF \E i \in 1..n : P[i].kiz /\ ~(LE(P[i].need, Add(Add(P[i].eink, P[i].kizamt), Tol1e6)) \/ LE(P[i].need, Add(Add(Add(P[i].eink, P[i].kizamt), P[i].wgamt), Tol1e6)))
        THEN {"kinderzuschlag-without-need-covered"} ELSE {})
Init == l = 1 /\ bad = {}
Step == l <= Len(Ev) /\ bad' = bad \cup {[e |-> l, c |-> c] : c \in (IF Ev[l].k = "replay" THEN ReplayVerdict(Ev[l]) ELSE HhVerdict(Ev[l]))} /\ l' = l + 1
Spec == Init /\ [][Step]_vars
Done == (l = Len(Ev) + 1) => JsonSerialize(OutFile, [bad |-> bad, n |-> Len(Ev)])
Consumed == TLCGet("stats").diameter - 1 = Len(Ev)
=============================================================================
