------------------------------- MODULE Contrib -------------------------------
(* Employee social-insurance contributions along the wage axis (C19).  The wage axis is a    *)
(* behaviour: a sweep is a sequence of points with increasing gross wage w; each point        *)
(* carries the contribution c of one insurance branch.  Statutory shape:                       *)
(*   Regime(w) = Mini    if w <= mini          (marginal employment: no employee contribution) *)
(*               Zone    if mini < w <= midi   (transition zone, reduced contribution)         *)
(*               Regular if midi < w < cap     (rate * wage)                                    *)
(*               Capped  if w >= cap           (rate * assessment ceiling)                      *)
(* Step properties between consecutive points (w < w'):                                        *)
(*   NonNeg, MiniZero, Monotone (c' >= c), CappedConstant, NoJump (|c' - c| <= (w' - w) + eps   *)
(*   except across the mini-job threshold: the reduced contributions meet the regular ones at   *)
(*   the upper zone boundary), ZoneSum (employee + employer = total inside the zone).           *)
EXTENDS Dec
Regime(w, mini, midi, cap) == IF LE(w, mini) THEN "Mini" ELSE IF LE(w, midi) THEN "Zone" ELSE IF LT(w, cap) THEN "Regular" ELSE "Capped"
Eps == Tol1e9
NonNeg(c) == LE(Neg(Eps), c)
MiniZero(w, c, mini) == LE(w, mini) => c.s = 0
Monotone(c, c2) == LE(Sub(c, Eps), c2)
CappedConstant(w, c, c2, cap) == LE(cap, w) => Near(c, c2, Eps)
NoJump(w, w2, c, c2, mini) == (LE(w, mini) /\ LT(mini, w2)) \/ LE(Abs(Sub(c2, c)), Add(Sub(w2, w), Eps))
ZoneSum(inzone, an, ag, tot) == inzone => Close(Add(an, ag), tot, Eps)
=============================================================================
