------------------------------- MODULE Derive -------------------------------
(* The compile pipeline of compute_taxes_and_transfers as a rule system over column names  *)
(* (functions_loader.load_and_check_functions, time_conversion.create_time_conversion_…).  *)
(* Input  cfg = [fn    : rule name |-> [args : set of names, round : rounding key or ""],  *)
(*               data  : set of data column names,                                        *)
(*               bgrp, ugrp : built-in / user group aggregation specs  name |-> [aggr, src],*)
(*               bpid, upid : built-in / user p_id aggregation specs  name |-> [aggr, src, by]]*)
(*        T = set of targets.                                                              *)
(* Output Table(cfg, T): name |-> [kind, args, round, src, conv] with the creation          *)
(* conditions and the merge precedence of the code:                                        *)
(*   p_id aggregates < time conversions < rules < group aggregates < groupings,            *)
(*   data columns override everything (Overridden).                                        *)
EXTENDS Names
Over(a, b) == [n \in DOMAIN a \cup DOMAIN b |-> IF n \in DOMAIN b THEN b[n] ELSE a[n]]   \* b wins
Empty == [n \in {} |-> 0]
Node(kind, args, round, src, conv) == [kind |-> kind, args |-> args, round |-> round, src |-> src, conv |-> conv]

GroupingArgs(n) ==
   CASE n = "wthh_id" -> {"hh_id", "wohngeld_vorrang_bg", "wohngeld_kinderzuschl_vorrang_bg"}
     [] n = "fg_id" -> {"p_id", "hh_id", "alter", "p_id_einstandspartner", "p_id_elternteil_1", "p_id_elternteil_2"}
     [] n = "bg_id" -> {"fg_id", "alter", "eigenbedarf_gedeckt"}
     [] n = "eg_id" -> {"p_id", "p_id_einstandspartner"}
     [] n = "ehe_id" -> {"p_id", "p_id_ehepartner"}
     [] n = "sn_id" -> {"p_id", "p_id_ehepartner", "gemeinsam_veranlagt"}
GroupingNames == {"wthh_id", "fg_id", "bg_id", "eg_id", "ehe_id", "sn_id"}

\* candidates for derived time-unit nodes: [name, src, from, to]
TimeCand(names, argsOf) ==
  UNION { LET p == ParseTime(n) IN IF p = <<>> THEN {} ELSE
          { [name |-> p[1] \o u \o p[3], src |-> n, from |-> p[2], to |-> u] :
              u \in {v \in Units : v # p[2] /\ (p[1] \o v \o p[3]) \notin argsOf[n]} }   \* cycle guard
        : n \in names }

Parts(cfg, T, withGroupings) ==
  LET Fn == [n \in DOMAIN cfg.fn |-> Node("rule", cfg.fn[n].args, cfg.fn[n].round, "", <<>>)]
      PidSpecs == Over(cfg.bpid, cfg.upid)
      PidAgg == [n \in {n \in DOMAIN PidSpecs : PidSpecs[n].src \in DOMAIN Fn \/ PidSpecs[n].src \in cfg.data} |->
                   Node("pid_" \o PidSpecs[n].aggr,
                        IF PidSpecs[n].aggr = "count" THEN {PidSpecs[n].by, "p_id"} ELSE {PidSpecs[n].src, PidSpecs[n].by, "p_id"},
                        "", PidSpecs[n].src, <<>>)]
      F1 == Over(Fn, PidAgg)
      TCfn == {r \in TimeCand(DOMAIN F1, [n \in DOMAIN F1 |-> F1[n].args]) : r.name \notin DOMAIN F1 /\ r.name \notin cfg.data}
      TCdata == {r \in TimeCand(cfg.data, [n \in cfg.data |-> {}]) : r.name \notin cfg.data}
      TCnames == {r.name : r \in TCfn \cup TCdata}
      \* a derived name created from data overwrites one created from a rule
      Srcs(n) == IF \E r \in TCdata : r.name = n THEN {r \in TCdata : r.name = n} ELSE {r \in TCfn : r.name = n}
      Pick(n) == CHOOSE r \in Srcs(n) : TRUE
      TimeFns == [n \in TCnames |-> LET r == Pick(n) IN
                    [kind |-> "time", args |-> {r.src}, round |-> "", src |-> r.src, conv |-> <<r.from, r.to>>,
                     alts |-> {q.src : q \in Srcs(n)}]]
      TimeFnsPlain == [n \in TCnames |-> Node("time", TimeFns[n].args, "", TimeFns[n].src, TimeFns[n].conv)]
      F2 == Over(Over(TimeFnsPlain, Fn), PidAgg)
      PotSrc == DOMAIN F2 \cup cfg.data
      PotAgg == UNION {F2[n].args : n \in DOMAIN F2} \cup T
      Auto == {c \in PotAgg : c \notin DOMAIN F2 /\ HasGroupSuffix(c) /\ RemoveGroupSuffix(c) \in PotSrc}
      AutoSpecs == [c \in Auto |-> [aggr |-> "sum", src |-> RemoveGroupSuffix(c)]]
      GSpecs == Over(Over(AutoSpecs, cfg.bgrp), cfg.ugrp)
      GAgg == [n \in DOMAIN GSpecs |->
                 Node("grp_" \o GSpecs[n].aggr,
                      IF GSpecs[n].aggr = "count" THEN {GroupIdOf(n)} ELSE {GSpecs[n].src, GroupIdOf(n)},
                      "", IF GSpecs[n].aggr = "count" THEN "" ELSE GSpecs[n].src, <<>>)]
      Grp == IF withGroupings THEN [n \in GroupingNames |-> Node("grouping", GroupingArgs(n), "", "", <<>>)] ELSE Empty
  IN [pid |-> PidAgg, time |-> TimeFns, fn |-> Fn, grp |-> GAgg, groupings |-> Grp, auto |-> Auto]

Table(cfg, T) == LET p == Parts(cfg, T, FALSE) IN
                 Over(Over(Over(p.pid, [n \in DOMAIN p.time |-> Node("time", p.time[n].args, "", p.time[n].src, p.time[n].conv)]), p.fn), p.grp)
TableFull(cfg, T) == LET p == Parts(cfg, T, TRUE) IN
                 Over(Over(Over(Over(p.pid, [n \in DOMAIN p.time |-> Node("time", p.time[n].args, "", p.time[n].src, p.time[n].conv)]), p.fn), p.grp), p.groupings)
Overridden(cfg, T) == DOMAIN TableFull(cfg, T) \cap cfg.data
=============================================================================
