------------------------------ MODULE Gettsim ------------------------------
(* GETTSIM at the level of its public API, as a state machine of one Python process.       *)
(* The linearization point of a call in a sequential library is its return, so there is    *)
(* one action per public entry point:                                                       *)
(*   SetUp(d)            set_up_policy_environment(d) -> a new environment handle           *)
(*   Reform(e, g)        the caller edits parameter group g of handle e IN PLACE            *)
(*   Compute(e, p, T, r) compute_taxes_and_transfers(data p, params/functions of e,         *)
(*                       targets T, rounding r)                                              *)
(*   Vectorize(e, f)     make_vectorizable(functions of e [f])                               *)
(* SPECIFIED behaviour: the result of Compute is a function F of the CONTENT of its          *)
(* arguments only -- the date of the handle, the reforms applied to that handle, the         *)
(* population, the targets and the rounding flag (`Key`).  Nothing else in the history       *)
(* matters, and no action changes anything the caller holds except what the caller edits     *)
(* (Reform).  `hist` records the calls; Trace_History validates recorded executions.         *)
EXTENDS Naturals, Sequences, FiniteSets
CONSTANTS Dates, Pops, TargetSets, Groups, Rules, MaxLen, MaxEnvs
VARIABLES envs, hist
vars == <<envs, hist>>
Init == envs = <<>> /\ hist = <<>>
SetUp == \E d \in Dates : Len(envs) < MaxEnvs /\ envs' = Append(envs, [date |-> d, reforms |-> {}])
              /\ hist' = Append(hist, [k |-> "setup", d |-> d, e |-> Len(envs) + 1])
Reform == \E e \in 1..Len(envs), g \in Groups : g \notin envs[e].reforms
              /\ envs' = [envs EXCEPT ![e].reforms = @ \cup {g}]
              /\ hist' = Append(hist, [k |-> "reform", e |-> e, g |-> g])
Key(e, p, T, r) == [date |-> envs[e].date, reforms |-> envs[e].reforms, pop |-> p, targets |-> T, rounding |-> r]
Compute == \E e \in 1..Len(envs), p \in Pops, T \in TargetSets, r \in BOOLEAN :
              /\ hist' = Append(hist, [k |-> "compute", e |-> e, key |-> Key(e, p, T, r)])
              /\ UNCHANGED envs
Vectorize == \E e \in 1..Len(envs), f \in Rules : hist' = Append(hist, [k |-> "vectorize", e |-> e, f |-> f]) /\ UNCHANGED envs
More == Len(hist) < MaxLen
Next == (More /\ SetUp) \/ (More /\ Reform) \/ (More /\ Compute) \/ (More /\ Vectorize)
Spec == Init /\ [][Next]_vars
\* the calls whose results the property speaks about
Computes == {i \in 1..Len(hist) : hist[i].k = "compute"}
\* interesting histories end with a compute and contain an earlier action that could interfere
Interesting == Len(hist) >= 2 /\ hist[Len(hist)].k = "compute"
\* sanity: keys only mention reforms applied to the same handle
TypeOK == \A i \in Computes : hist[i].key.reforms \subseteq Groups
=============================================================================
