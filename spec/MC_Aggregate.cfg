CONSTANTS
  MaxRows = 4
  Vals = {0, 1, 3}
  Ids = {0, 2, 5}
SPECIFICATION Spec
INVARIANT InvConservation
INVARIANT InvConstant
INVARIANT InvSelfConsistent
INVARIANT InvMembership
CHECK_DEADLOCK FALSE
