--------------------------------- MODULE Vec ---------------------------------
(* The source-to-source rewrite of vectorization.py (class Transformer) AS IMPLEMENTED,    *)
(* on uniform AST values:                                                                   *)
(*   [k |-> "node", t |-> type name, f |-> record of fields]                                *)
(*   [k |-> "list", items |-> sequence]        [k |-> "prim", v |-> "type:repr" string]     *)
(*   [k |-> "err",  why |-> reason]            (rewrite-time TranslateToVectorizableError)  *)
(* Quirks of the implementation are kept literally (they are what C09 is about):            *)
(*   Q1 visit_UnaryOp does not visit its operand (nested and/or/if-expressions under `not`  *)
(*      or unary minus stay untranslated)                                                    *)
(*   Q2 an `if` without else whose body is `x += v` becomes `x += where(c, v, x)`            *)
(*   Q3 the else branch contributes only its VALUE, whatever its statement kind and target   *)
(*   Q4 sum/any/all/max/min of ONE iterable become numpy.sum/... i.e. a full reduction       *)
EXTENDS Sequences, Naturals, FiniteSets, TLC, SequencesExt
Mod == "numpy"
Node(t, f) == [k |-> "node", t |-> t, f |-> f]
List(s) == [k |-> "list", items |-> s]
Prim(v) == [k |-> "prim", v |-> v]
Err(w) == [k |-> "err", why |-> w]
Str(s) == Prim("str:'" \o s \o "'")
Name(id) == Node("Name", [id |-> Str(id)])
Attr(obj, a) == Node("Attribute", [value |-> obj, attr |-> Str(a)])
Call(fn, args) == Node("Call", [func |-> fn, args |-> List(args), keywords |-> List(<<>>)])
ModCall(a, args) == Call(Attr(Name(Mod), a), args)
IsNode(x, t) == x.k = "node" /\ x.t = t
IdOf(nameNode) == nameNode.f.id
Reducers == {Str("sum"), Str("any"), Str("all"), Str("max"), Str("min")}
AttrOfId(p) == SubSeq(p.v, 6, Len(p.v) - 1)   \* strip  str:'  and  '
RECURSIVE Visit(_)
RECURSIVE VisitSeq(_, _)
VisitSeq(s, i) == IF i > Len(s) THEN <<>> ELSE <<Visit(s[i])>> \o VisitSeq(s, i + 1)
Generic(n) == Node(n.t, [fk \in DOMAIN n.f |-> Visit(n.f[fk])])
RECURSIVE FoldBool(_, _, _, _)
FoldBool(op, acc, vals, i) == IF i > Len(vals) THEN acc ELSE FoldBool(op, ModCall(op, <<acc, vals[i]>>), vals, i + 1)
IfToCall(n) ==   \* n is an If node whose children are already visited
  LET body == n.f.body.items  orelse == n.f.orelse.items IN
  IF Len(body) = 0 \/ "value" \notin DOMAIN body[1].f THEN Err("body-no-value") ELSE
  IF Len(orelse) > 1 \/ Len(body) > 1 THEN Err("too-many-operations") ELSE
  LET b == body[1] IN
  IF Len(orelse) = 0 THEN
       IF IsNode(b, "Return") THEN Err("return-no-else")
       ELSE IF "targets" \in DOMAIN b.f THEN ModCall("where", <<n.f.test, b.f.value, Node("Name", [id |-> IdOf(b.f.targets.items[1])])>>)
       ELSE ModCall("where", <<n.f.test, b.f.value, Node("Name", [id |-> IdOf(b.f.target)])>>)
  ELSE LET e == orelse[1] IN
       IF IsNode(e, "Return") THEN ModCall("where", <<n.f.test, b.f.value, e.f.value>>)
       ELSE IF IsNode(e, "Assign") \/ IsNode(e, "AugAssign") THEN ModCall("where", <<n.f.test, b.f.value, e.f.value>>)
       ELSE Err("unallowed-operation")
Visit(x) ==
  IF x.k = "prim" \/ x.k = "err" THEN x
  ELSE IF x.k = "list" THEN List(VisitSeq(x.items, 1))
  ELSE CASE x.t = "Call" ->
              LET g == Generic(x) IN
              IF IsNode(g.f.func, "Name") /\ IdOf(g.f.func) \in Reducers
              THEN LET id == AttrOfId(IdOf(g.f.func)) nargs == Len(g.f.args.items) IN
                   IF nargs = 1 THEN Node("Call", [g.f EXCEPT !.func = Attr(Name(Mod), id)])
                   ELSE IF id \in {"max", "min"} /\ nargs = 2 THEN Node("Call", [g.f EXCEPT !.func = Attr(Name(Mod), id \o "imum")])
                   ELSE Err("too-many-arguments")
              ELSE g
         [] x.t = "UnaryOp" -> IF IsNode(x.f.op, "Not") THEN ModCall("logical_not", <<x.f.operand>>) ELSE x
         [] x.t = "BoolOp" -> LET g == Generic(x) vals == g.f.values.items
                                  op == IF IsNode(g.f.op, "And") THEN "logical_and" ELSE "logical_or" IN
                              FoldBool(op, vals[1], vals, 2)
         [] x.t = "IfExp" -> LET g == Generic(x) IN ModCall("where", <<g.f.test, g.f.body, g.f.orelse>>)
         [] x.t = "If" -> LET g == Generic(x) c == IfToCall(g) IN
                          IF c.k = "err" THEN c
                          ELSE LET b == g.f.body.items[1] IN
                               IF IsNode(b, "Return") THEN Node("Return", [value |-> c])
                               ELSE IF IsNode(b, "Assign") \/ IsNode(b, "AugAssign") THEN Node(b.t, [b.f EXCEPT !.value = c])
                               ELSE Err("unbound-out")
         [] OTHER -> Generic(x)
RECURSIVE HasErr(_)
HasErr(x) == IF x.k = "err" THEN TRUE ELSE IF x.k = "prim" THEN FALSE
             ELSE IF x.k = "list" THEN \E i \in 1..Len(x.items) : HasErr(x.items[i])
             ELSE \E fk \in DOMAIN x.f : HasErr(x.f[fk])
=============================================================================
