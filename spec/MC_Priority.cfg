CONSTANTS
  MaxUnits = 2
  Max = 2
SPECIFICATION Spec
INVARIANT InvExclusive
INVARIANT InvKiz
INVARIANT InvGrunds
CHECK_DEADLOCK FALSE
