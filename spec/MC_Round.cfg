CONSTANTS
  Bases = {1, 2, 5}
  Quarters = {8, 9, 10, 11, 12, 18, 19, 20, 21, 22, 23, 24, 30, 31, 32}
  Dirs = {"up", "down", "nearest"}
INIT Init
NEXT Next
INVARIANT Exists
INVARIANT UniqueUpDown
INVARIANT WithinStep
INVARIANT Idempotent
CHECK_DEADLOCK FALSE
