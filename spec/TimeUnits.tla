------------------------------ MODULE TimeUnits ------------------------------
(* Time-unit conversion: F(u) periods per year, 12 months, 365.25/7 weeks, 365.25 days.      *)
(* x_u * F(u) is the yearly value whatever the unit u.                                         *)
EXTENDS Dec
FNum(u) == CASE u = "y" -> 1 [] u = "m" -> 12 [] u = "w" -> 1461 [] u = "d" -> 1461
FDen(u) == CASE u = "y" -> 1 [] u = "m" -> 1 [] u = "w" -> 28 [] u = "d" -> 4
\* xa in unit ua and xb in unit ub denote the same flow
SameFlowValue(xa, ua, xb, ub, tol) ==
  Close(Mul(xa, FromInt(FNum(ua) * FDen(ub))), Mul(xb, FromInt(FNum(ub) * FDen(ua))), tol)
Conv(x, from, to) == \* exact rational result as a pair <<numerator Dec, denominator int>>
  <<Mul(x, FromInt(FNum(from) * FDen(to))), FNum(to) * FDen(from)>>
=============================================================================
