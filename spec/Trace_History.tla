--------------------------- MODULE Trace_History ---------------------------
(* Code -> spec for C14.  Each history generated from Gettsim.tla is replayed in a fresh     *)
(* interpreter; every call is recorded with exact digests.  Events:                           *)
(*   [k = "ref",  key, digest]              the same call made FIRST in a fresh interpreter   *)
(*   [k = "call", tid, pos, key, digest, exc, before, after]                                  *)
(*        key = canonical string of the call's abstract arguments (Gettsim!Key)                *)
(*        before / after = digests of everything the caller holds (data, params, functions,   *)
(*        specs) taken immediately before / after the call                                     *)
(* Clauses: history-dependent (digest differs from the reference of the same key),             *)
(*          nondeterministic (two references of one key differ), mutated (after # before),     *)
(*          raised (the call raised although the reference did not).                           *)
EXTENDS Naturals, Sequences, FiniteSets, TLC, Json, IOUtils
Ev == JsonDeserialize(IOEnv.TRACE_FILE)
OutFile == IOEnv.OUT_FILE
VARIABLES l, memo, bad
vars == <<l, memo, bad>>
Init == l = 1 /\ memo = [x \in {} |-> ""] /\ bad = {}
Step ==
  /\ l <= Len(Ev)
  /\ LET e == Ev[l] IN
     IF e.k = "ref"
     THEN IF e.key \in DOMAIN memo
          THEN memo' = memo /\ bad' = bad \cup (IF memo[e.key] # e.digest THEN {[e |-> l, c |-> "nondeterministic"]} ELSE {})
          ELSE memo' = [x \in DOMAIN memo \cup {e.key} |-> IF x = e.key THEN e.digest ELSE memo[x]] /\ bad' = bad
     ELSE /\ memo' = memo
          /\ bad' = bad
               \cup (IF e.key \in DOMAIN memo /\ e.exc = "" /\ memo[e.key] # e.digest THEN {[e |-> l, c |-> "history-dependent"]} ELSE {})
               \cup (IF e.key \in DOMAIN memo /\ e.exc # "" /\ memo[e.key] # "EXC:" \o e.exc THEN {[e |-> l, c |-> "raised"]} ELSE {})
               \cup (IF e.key \notin DOMAIN memo THEN {[e |-> l, c |-> "no-reference"]} ELSE {})
               \cup (IF e.before # e.after THEN {[e |-> l, c |-> "mutated"]} ELSE {})
  /\ l' = l + 1
Spec == Init /\ [][Step]_vars
Done == (l = Len(Ev) + 1) => JsonSerialize(OutFile, [bad |-> bad, n |-> Len(Ev), keys |-> Cardinality(DOMAIN memo)])
Consumed == TLCGet("stats").diameter - 1 = Len(Ev)
=============================================================================
