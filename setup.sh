#!/bin/sh
# Offline set-up: verify the tools the checks need; install jsonschema into /venv if missing.
set -e
java -version >/dev/null 2>&1 || { echo "java missing"; exit 1; }
test -f /opt/veriftools/tla/tla2tools.jar || { echo "tla2tools.jar missing"; exit 1; }
/venv/bin/python -c "import numpy, pandas, networkx, yaml" || { echo "repo python deps missing"; exit 1; }
/venv/bin/python -c "import jsonschema" 2>/dev/null || /venv/bin/pip install --no-index --find-links /opt/veriftools/wheels jsonschema >/dev/null 2>&1 || true
/venv/bin/python -c "import hypothesis" 2>/dev/null || /venv/bin/pip install --no-index --find-links /opt/veriftools/wheels hypothesis >/dev/null 2>&1 || true
mkdir -p /verif/evidence /verif/replays
echo setup-ok
